# engine C build: instrument the working-tree versions of the listed files (go/ast
# rewriter, regenerated on every run) and substitute them through the overlay.
THREX_FILES="internal/app/plugins/poll/poll.go internal/api/api.go internal/aio/aio.go internal/kernel/system/system.go internal/app/subsystems/api/api.go internal/app/subsystems/aio/store/store.go internal/app/subsystems/aio/echo/echo.go internal/app/subsystems/aio/store/sqlite/sqlite.go"
threx_build() {
  # extra args: "virtual=real" overlay pairs of a mutant (the rewriter then reads the patched copy)
  local tmpd; mkdir -p $VERIF/.ov $VERIF/bin; tmpd=$(mktemp -d $VERIF/.ov/threx.XXXXXX) || return 1
  go build -o $VERIF/bin/rewrite $VERIF/harness/cmd/rewrite/main.go || { rm -rf $tmpd; return 1; }
  local pairs=() f src flags
  for f in $THREX_FILES; do
    src=$REPO/$f
    for p in "$@"; do [ "${p%%=*}" = "$REPO/$f" ] && src=${p#*=}; done
    flags=()
    [ "$f" = internal/kernel/system/system.go ] && flags=(-keepgo "<funclit>")
    mkdir -p $tmpd/$(dirname $f)
    $VERIF/bin/rewrite $src $tmpd/$f "${flags[@]}" || { echo "rewriter cannot instrument $f" >&2; rm -rf $tmpd; return 1; }
    pairs+=("$REPO/$f=$tmpd/$f")
  done
  # mutant files that are not instrumented pass through unchanged
  for p in "$@"; do
    local v=${p%%=*} hit=0
    for f in $THREX_FILES; do [ "$v" = "$REPO/$f" ] && hit=1; done
    [ $hit = 0 ] && pairs+=("$p")
  done
  local rc=0
  [ -z "$THREX_SKIPMAIN" ] && { vbuild threx "${pairs[@]}"; rc=$?; }
  # the same sources once more with the race detector, for the free-running pass
  if [ $rc = 0 ] && [ -z "$THREX_NORACE" ]; then
    VBUILD_FLAGS=-race VBUILD_OUT=threx-race vbuild threx "${pairs[@]}" || { echo "note: -race build failed, the free-running pass is skipped" >&2; rm -f $VERIF/bin/threx-race; }
  fi
  rm -rf $tmpd
  return $rc
}
