#!/usr/bin/env python3
# Regenerates /verif/MANIFEST.json from the table below (kept next to the code so that it cannot drift).
import json, subprocess
ids = [json.loads(l)["id"] for l in open("/verif/properties.jsonl")]
A = "kexplore"
checks = {
 "C01": dict(engine=A, design="4/C01",
   technique="stateless model checking of the real kernel (controlled aio.AIO, DFS over all interleavings/faults/crashes with state-key pruning) + table-transition and observation monitors",
   text="Exhaustive exploration of the real coroutines, kernel and SQLite store: every interleaving of the store/router/sender submissions of 2-3 concurrent requests on one promise id with the time-out sweep, a clock step onto the deadline, one injected before/after-commit failure and one crash/restart, from five setup states. At every commit the promises table is compared row by row with its predecessor (write-once completion, immutable creation fields, no disappearance) and every promise object that leaves the server (responses, search pages, claim payloads, notifications) is compared field by field with the row.",
   note="Bounds: 2 concurrent clients (3 in thorough), 1 fault, 1 crash, one promise id plus a root. A store is a serial executor of transactions (exact for SQLite); SQLite's atomic commit and gocoro's lock-step are trusted. Postgres MVCC anomalies are not executed."),
}
m = {
 "version": 1,
 "setup_cmd": "./setup.sh",
 "hooks": {
   "guard": "verif",
   "enable": "go build -tags verif -overlay <generated>: hook files live in /verif/harness/hooks and are injected into their packages by the overlay (no file of /repo is modified); harness packages are compiled as internal/verif/... inside the module the same way",
   "baseline_off_cmd": "cd /repo && GOFLAGS=-mod=mod GOPROXY=off GOSUMDB=off GOTOOLCHAIN=local go test -json -vet=off -count=1 -timeout 25m ./...",
   "source_commits": [],
   "add_only": True,
 },
 "engines": [
   {"name": "kexplore", "path": "harness/cmd/kexplore", "serves_properties": [p for p in ids if checks.get(p, {}).get("engine") == A],
    "kind_free_text": "stateless model checker for the real kernel: controlled aio.AIO, clock, faults, crashes; DFS with state-key pruning"},
 ],
 "checks": [],
 "not_applicable": [],
 "notes": "All checks build from /repo's working tree on every run (./check). Known findings: /verif/known_findings.json.",
}
for p in ids:
    c = checks.get(p)
    if not c:
        m["not_applicable"].append({"property_id": p, "reason": "check not built yet (work in progress; the plan is DESIGN.md section 4)"})
        continue
    m["checks"].append({
      "property_id": p,
      "quick_cmd": f"./check {p} quick",
      "thorough_cmd": f"./check {p} thorough",
      "evidence_file": f"/verif/evidence/{p}.json",
      "replay_cmd_template": "./check replay {path}",
      "engine": c["engine"],
      "level_claimed": {"category": "model_checking", "text": c["text"], "design_ref": c["design"]},
      "level_note": c["note"],
      "technique": c["technique"],
    })
json.dump(m, open("/verif/MANIFEST.json", "w"), indent=1)
print("checks:", len(m["checks"]), "not_applicable:", len(m["not_applicable"]))
