#!/usr/bin/env python3
# Regenerates /verif/MANIFEST.json from the table below (kept next to the code so that it cannot drift).
import json, subprocess
ids = [json.loads(l)["id"] for l in open("/verif/properties.jsonl")]
A = "kexplore"
checks = {
 "C01": dict(engine=A, design="4/C01",
   technique="stateless model checking of the real kernel (controlled aio.AIO, DFS over all interleavings/faults/crashes with state-key pruning) + table-transition and observation monitors",
   text="Exhaustive exploration of the real coroutines, kernel and SQLite store: every interleaving of the store/router/sender submissions of 2-3 concurrent requests on one promise id with the time-out sweep, a clock step onto the deadline, one injected before/after-commit failure and one crash/restart, from five setup states. At every commit the promises table is compared row by row with its predecessor (write-once completion, immutable creation fields, no disappearance) and every promise object that leaves the server (responses, search pages, claim payloads, notifications) is compared field by field with the row.",
   note="Bounds: 2 concurrent clients (3 in thorough), 1 fault, 1 crash, one promise id plus a root. A store is a serial executor of transactions (exact for SQLite); SQLite's atomic commit and gocoro's lock-step are trusted. Postgres MVCC anomalies are not executed."),
 "C03": dict(engine=A, design="4/C03",
   technique="explicit-state enumeration of request sequences on the real kernel against a status oracle transcribed from the statement + exhaustive interleavings of racing retries with lost responses",
   text="(i) Every sequence of length <=3 (4 thorough) over create / create-with-task / complete x idempotency key {absent,a,b} x strict x requested state, executed one at a time on the real kernel with the clock before/at/after the timeout, each response status compared with an oracle written from the property statement and each returned promise compared with the row; (ii) every interleaving of two clients each sending a request and its retry, with one injected failure (lost response or failed transaction) and the time-out sweep. Effect monitors at every commit: creation fields never change, no repeat creates a further task, at most one 201 per operation and id.",
   note="Key domain {absent,a,b} (the code only tests equality); one promise id. Serial-store and SQLite/gocoro trust as for C01."),
 "C04": dict(engine=A, design="4/C04",
   technique="stateless model checking of the real kernel with the clock as an explored input (steps T-2..T+1 placed between any two transactions)",
   text="Every interleaving of read/create/complete/search requests with the time-out sweep (promise batch size 1, 2, 100) and with clock steps around the deadline placed anywhere between their store transactions; promises created with a timeout in the past or exactly now. Monitors: no response of a request submitted at a clock >= timeout reports PENDING; a row becomes timed-out only at a clock >= timeout with empty value, null key and completedOn == timeout; a completion that decided at a clock >= timeout never installs the caller's state; nothing is reported timed out before the deadline.",
   note="The kernel only ever sees the tick time, which the explorer owns; the wall clock read in Loop is outside. Two known findings (creation with an already elapsed timeout answers 201 PENDING)."),
 "C05": dict(engine=A, design="4/C05",
   technique="stateless model checking of the real kernel incl. both orders inside one SQL batch, cross-table invariants at every commit",
   text="Every interleaving (including both orders inside one SQL transaction batch) of callback/subscription registrations and re-registrations with every completion path of the awaited promise (explicit, lazy time-out by read/create/search, background sweep), 0-3 existing registrations, one injected failure (two thorough) and one crash. At every commit: no registration refers to a non-pending promise; the completing commit turns exactly the registrations into tasks; a notification task leaves its initial state only through a command addressed to it; every acknowledged registration either reports a completed promise or left a registration/task.",
   note="One awaited promise, two roots, three registration ids. F1 (stale PENDING acknowledgement) was repaired by a fix: commit; F9 (racing second completion finishes undelivered notification tasks) is a listed known finding."),
 "C07": dict(engine=A, design="4/C07",
   technique="explicit-state enumeration of worker operation sequences against a status oracle + stateless model checking of concurrent workers with a lease monitor kept by the oracle",
   text="(i) Every sequence of <=3 (4 thorough) claim/complete/heartbeat/complete-promise operations of two workers with current, stale and future counters and ttl {0,5}, from task states init/enqueued/claimed/reclaimed, with the clock stepping over the lease end and the lease and dispatch sweeps placed anywhere, each status compared with an oracle; (ii) every interleaving of two concurrent workers with the sweeps and one injected failure. At every commit: allowed task edges only, counter never decreases and increases exactly on a fall-back to init, claimed only from unclaimed-unfinished with equal counter, lease fields change only by the holder's heartbeat, and a claimed task is taken away only when the lease the oracle tracks (claim or last timely heartbeat + ttl), the task timeout or the promise completion allows it; at most one acknowledged claim per (task, counter).",
   note="One task (plus its promise), two workers, ttl {0,5}, clock menu 4/5/6 around the lease end. A heartbeat that straddles the lease end may count either way (same reading as C04 for requests that straddle a deadline)."),
 "C08": dict(engine=A, design="4/C08",
   technique="stateless model checking of the real kernel incl. router/sender outcomes; the real SenderWorker builds the dispatched message that the oracle parses",
   text="Every interleaving of (a) two racing creations (routed string / routed JSON receiver / unrouted / malformed routing tag, with and without task) with one router or store failure and both orders in one SQL batch, (b) promise completion, claims and task completion with dispatch cycles (task batch size 1, 2, 100; accepted / refused / failed hand-offs) and the lease sweep. Commit monitors: routed promise <=> invocation task in the same commit, refused create-with-task leaves nothing, completion finishes every outstanding task of the root; dispatch monitors on what each cycle reads and sends: only init tasks, one per root, no active sibling, enqueued only after an accepted hand-off, failed hand-off => attempt+1, notification finished only after an attempt; message oracle on the body built by the real sender worker.",
   note="Two roots, <=4 tasks. F10 (router failure silently dropped the route) repaired by a fix: commit. Lease arithmetic is C07's."),
 "C09": dict(engine=A, design="4/C09",
   technique="explicit-state enumeration of lock operation sequences + stateless model checking of concurrent lock requests (incl. both orders in one SQL batch) with a lease monitor",
   text="(i) Every sequence of <=3 (4 thorough) acquire/re-acquire/release/heartbeat operations over 2 resources, 2 executions, 2 processes, ttl {0,5}, with the clock stepping over the lease end and the expiry sweep placed anywhere; (ii) every interleaving of two clients with the sweep, one injected failure, and both orders inside one SQL batch. Transition monitor on locks (holder never changes in place; a row disappears only by its own execution's release or by a sweep at or after the lease end; lease fields change only by the same execution's acquire or its process's heartbeat; nothing but an acquire creates a row) and exact response oracle (each lock request is one transaction).",
   note="Argument domains as listed; serial-store trust as for C01."),
 "C02": dict(engine=A, design="4/C02",
   technique="differential stateless model checking: the reference set is computed by exploring ALL request-atomic schedules of the same real code, every concurrent schedule must be explained by it (brute-force linearizability check over <=3 overlapping requests)",
   text="Per scenario (2 concurrent requests and selected triples in quick, all triples in thorough; promise, task, lock and schedule families on shared ids; two setup states each; the family's background sweep; a clock step onto the deadline / lease end; one injected failure whose request may or may not have taken effect): first all request-atomic schedules give the reference set of (order, instant per request, complete response vector including a read-back epilogue); then every concurrent schedule is accepted only if some reference element has the same full responses, an order consistent with real-time precedence and an instant inside every request's interval.",
   note="The clock advances only while no client request is in flight (a request that straddles a tick carries a decision-time stamp; C04/C07/C09 treat straddling with explicit oracles). A defect that is also present in sequential execution is invisible to a differential oracle. One known finding (ClaimTask answers 201 with an already completed root promise)."),
 "C10": dict(engine=A, design="4/C10",
   technique="stateless model checking of the firing cycle against the cron library's occurrence sequence",
   text="Every interleaving of the firing cycle (schedule batch size 1, 2, 100; several cycles) with create / delete / re-create (same and different idempotency key) of the schedule and a user creating an occurrence's promise id, with clock steps just before, onto and far past occurrences (jumps over up to 60 occurrences), one failure and one crash mid-cycle. At every commit: next run time advances by exactly one occurrence per firing, never early, together with the occurrence's promise (id = template expansion, timeout = occurrence + promise timeout, configured param and tags plus the two marker tags) in the same commit; nothing of a deleted schedule fires for an occurrence later than the deletion; the epilogue runs cycles to quiescence and every occurrence in (created_on, clock] must have its promise.",
   note="robfig/cron (through util.Next) defines 'occurrence'. Templates limited to {{.id}} and {{.timestamp}}. The crash on schedules whose promises route to a receiver was repaired by a fix: commit."),
 "C06": dict(engine=A, design="4/C06",
   technique="crash-point enumeration on the real kernel (crash = one explored action at every action boundary, deviation-bounded in quick, unbounded in thorough) + the real serve binary killed and restarted on its SQLite file",
   text="Five workloads (routed create + claim + complete; registration then completion; overdue promise with registrations and the sweep; schedule creation and firing of routed promises; lock and task leases) with a crash at every action boundary - before a submission executes, after it committed but before its completion is delivered, between any two steps of any coroutine, in the middle of every sweep - then restart, read-back through the API and background cycles. Oracles: an acknowledged mutation was committed before it was acknowledged and is still there after every restart; the database after restart equals the database at the crash; cross-table invariants (no registration on a non-pending promise, routed promise has its task, completed promise has no active task, advanced schedule has its promise) at every commit and after every restart; convergence after restart. A second job builds the real `resonate` binary from the tree, runs serve, performs 1-4 HTTP mutations, sends SIGTERM or SIGKILL, restarts on the same file with the default configuration and reads everything back.",
   note="Quick: <=4 deviations from the canonical schedule (the crash is one of them); thorough: unbounded, two crashes. SQLite's journal/fsync machinery is trusted: a crash is process death between SQL transactions."),
 "C11": dict(engine=A, design="4/C11",
   technique="bounded-liveness model checking of the un-gated kernel (real Tick start logic) over a configuration grid, obligations discharged within a state-dependent number of cycles",
   text="The real kernel with its own background start logic runs 20 (40 thorough) cycles from two rich database states over the configuration grid {promise/schedule/task batch size 1,2,100} x {coroutine pool 1,2,5,1000} x {signal timeout 1ms,1s} x {enqueue delay 1s,10s} x {completion/submission batch 1,1000}; the explorer picks the order of the sweeps' submissions (deviation bound 1, 2 thorough) and the placement of one (two) store/router/sender failure. Every obligation (overdue promise, expired lock, unfired occurrence, undispatched task, lapsed task lease) must disappear or change identity within K cycles, K computed from the state.",
   note="F6 (sweeps starve when the coroutine pool is smaller than five) repaired by a fix: commit; one known finding (task batch size 1 starves later roots when dispatched tasks are never claimed). Enqueue delay 0 is outside the documented range and excluded."),
 "C14": dict(engine=A, design="4/C14",
   technique="exhaustive enumeration of queries x cursor traversals x mutation placements on the real kernel, through the real api helper and cursor codec, against a reference matcher",
   text="5 promises (ids a, ab, abc, b/a, ba; every state, one becoming overdue; tag subsets) and 4 schedules; every query {*, a*, *a, *b*, exact} x state filter x tag subset x page size {1,2,3,100}; every complete cursor traversal with up to 3 (4) mutations {create, complete, clock past a timeout, sweep, delete schedule} placed before any page. Oracle: always-matching subset of returned subset of sometime-matching, no id twice, strictly newest-first, page <= limit, cursor iff full page, overdue never reported pending, forged cursor refused.",
   note="Lowercase ids without LIKE metacharacters (matching is only defined that far). One known finding: an overdue but not yet swept promise is invisible to state-filtered searches."),
}
m = {
 "version": 1,
 "setup_cmd": "./setup.sh",
 "hooks": {
   "guard": "verif",
   "enable": "go build -tags verif -overlay <generated>: hook files live in /verif/harness/hooks and are injected into their packages by the overlay (no file of /repo is modified); harness packages are compiled as internal/verif/... inside the module the same way",
   "baseline_off_cmd": "cd /repo && GOFLAGS=-mod=mod GOPROXY=off GOSUMDB=off GOTOOLCHAIN=local go test -json -vet=off -count=1 -timeout 25m ./...",
   "source_commits": [],
   "add_only": True,
 },
 "engines": [
   {"name": "kexplore", "path": "harness/cmd/kexplore", "serves_properties": [p for p in ids if checks.get(p, {}).get("engine") == A],
    "kind_free_text": "stateless model checker for the real kernel: controlled aio.AIO, clock, faults, crashes; DFS with state-key pruning"},
 ],
 "checks": [],
 "not_applicable": [],
 "notes": "All checks build from /repo's working tree on every run (./check). Known findings: /verif/known_findings.json.",
}
for p in ids:
    c = checks.get(p)
    if not c:
        m["not_applicable"].append({"property_id": p, "reason": "check not built yet (work in progress; the plan is DESIGN.md section 4)"})
        continue
    m["checks"].append({
      "property_id": p,
      "quick_cmd": f"./check {p} quick",
      "thorough_cmd": f"./check {p} thorough",
      "evidence_file": f"/verif/evidence/{p}.json",
      "replay_cmd_template": "./check replay {path}",
      "engine": c["engine"],
      "level_claimed": {"category": "model_checking", "text": c["text"], "design_ref": c["design"]},
      "level_note": c["note"],
      "technique": c["technique"],
    })
json.dump(m, open("/verif/MANIFEST.json", "w"), indent=1)
print("checks:", len(m["checks"]), "not_applicable:", len(m["not_applicable"]))
