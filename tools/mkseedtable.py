#!/usr/bin/env python3
# regenerates the seeded-change table of DESIGN.md (between the SEEDTABLE markers) from seeded/*/meta.json
import json, glob, os, re
rows = []
for d in sorted(glob.glob('/verif/seeded/C*-*')):
    m = json.load(open(d + '/meta.json'))
    name = os.path.basename(d)
    res = m.get('check_result', '')
    missed = 'MISSED' in res or 'missed' in res.lower()
    rows.append((name, m.get('breaks', '').replace('|', '/'), res.replace('|', '/'), missed))
out = ['| seed | what the change breaks | result of the check (and what was strengthened) |', '|---|---|---|']
for n, b, r, _ in rows:
    out.append(f'| {n} | {b} | {r} |')
out.append('')
out.append(f'{len(rows)} changes; {sum(1 for r in rows if r[3])} were missed by the check as it stood when the change arrived and are caught since the strengthening named in the row.')
txt = '\n'.join(out)
p = '/verif/DESIGN.md'
s = open(p).read()
a, b = '<!-- SEEDTABLE:BEGIN -->', '<!-- SEEDTABLE:END -->'
if a in s:
    s = s[:s.index(a) + len(a)] + '\n' + txt + '\n' + s[s.index(b):]
    open(p, 'w').write(s)
print(txt[:600])
