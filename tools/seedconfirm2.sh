#!/bin/bash
# tools/seedconfirm2.sh <worktree> <SEEDdir> <demo target dir (relative, may be the SEED dir)> [run regex]
# like seedconfirm.sh, for demonstrations that have to be copied into a package directory
export GOFLAGS=-mod=mod GOPROXY=off GOSUMDB=off GOTOOLCHAIN=local
wt=$1; sd=$2; dst=$3; rx=${4:-.}; cd $wt || exit 2
git checkout -q -- . 2>/dev/null
git apply --check $sd/patch.diff || { echo "RESULT $wt/$sd patch-does-not-apply"; exit 1; }
git apply $sd/patch.diff
b=FAIL; go build ./... >/dev/null 2>&1 && b=ok
pk=$(go list ./... 2>/dev/null | grep -v /SEED)
t=FAIL; go test -vet=off -count=1 $pk > $sd/confirm-suite.log 2>&1 && t=ok
mkdir -p $dst; copied=""
for f in $sd/*_test.go; do cp $f $dst/zz_seed_$(basename $f); copied="$copied $dst/zz_seed_$(basename $f)"; done
dw=pass; go test -vet=off -count=1 -tags seeddemo -run "$rx" ./$dst/ > $sd/confirm-demo-with.log 2>&1 || dw=FAILS
git checkout -q -- .
dn=FAILS; go test -vet=off -count=1 -tags seeddemo -run "$rx" ./$dst/ > $sd/confirm-demo-without.log 2>&1 && dn=pass
rm -f $copied; rmdir $dst 2>/dev/null
echo "RESULT $wt/$sd build=$b suite=$t demo_with_change=$dw demo_without_change=$dn"
