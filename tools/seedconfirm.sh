#!/bin/bash
# tools/seedconfirm.sh <worktree> <SEEDdir>: confirm a seeded change in its scratch worktree:
# builds, existing tests pass with it, demonstration fails with it and passes without it.
export GOFLAGS=-mod=mod GOPROXY=off GOSUMDB=off GOTOOLCHAIN=local
wt=$1; sd=$2; cd $wt || exit 2
git checkout -q -- . 2>/dev/null
git apply --check $sd/patch.diff || { echo "RESULT $wt/$sd patch-does-not-apply"; exit 1; }
git apply $sd/patch.diff
b=FAIL; go build ./... >/dev/null 2>&1 && b=ok
pk=$(go list ./... 2>/dev/null | grep -v /SEED)
t=FAIL; go test -vet=off -count=1 $pk > $sd/confirm-suite.log 2>&1 && t=ok
dw=pass; go test -vet=off -count=1 -tags "seeddemo c05demo c07demo c08demo demo" ./$sd/ > $sd/confirm-demo-with.log 2>&1 || dw=FAILS
git checkout -q -- .
dn=FAILS; go test -vet=off -count=1 -tags "seeddemo c05demo c07demo c08demo demo" ./$sd/ > $sd/confirm-demo-without.log 2>&1 && dn=pass
echo "RESULT $wt/$sd build=$b suite=$t demo_with_change=$dw demo_without_change=$dn"
