#!/bin/bash
# tools/seedregress.sh [seed-id ...] : applies each archived seeded change as an overlay (VERIF_MUTANT,
# /repo untouched), runs the check named first in its meta.json and prints the signatures it reports.
cd "$(dirname "$0")/.." || exit 2
ids=("$@"); [ ${#ids[@]} = 0 ] && ids=($(ls seeded))
for id in "${ids[@]}"; do
  d=seeded/$id; [ -f $d/patch.diff ] || continue
  prop=$(python3 -c "
import json,re,sys
m=json.load(open('$d/meta.json'))
r=re.search(r'(C\d\d) quick', m.get('check_result',''))
print(r.group(1) if r else m['property'])")
  extra=()
  case "$prop" in C13) [[ "$id" == C19-5 ]] && extra=(-only transports);; esac
  out=$(VERIF_MUTANT=$PWD/$d/patch.diff timeout 1200 ./check $prop quick "${extra[@]}" 2>&1)
  sigs=$(echo "$out" | grep "signature:" | sed 's/ *signature: //' | sort -u | head -4 | tr '\n' ' ')
  [ -z "$sigs" ] && sigs="NOT REPORTED ($(echo "$out" | grep -E "BUILD|harness error" | head -1 | cut -c1-80))"
  echo "$id -> $prop quick: $sigs"
done
