#!/bin/bash
# MANIFEST.setup_cmd: warm the Go build cache and build every engine once (offline).
cd "$(dirname "$0")" || exit 1
. ./lib.sh
cd $VERIF || exit 1
mkdir -p bin evidence replays .ov
(cd $REPO && go build ./... ) || exit 1
for eng in kexplore inputx storex; do
  vbuild $eng || exit 1
done
. $VERIF/threx.sh
threx_build || exit 1
echo "setup ok"
