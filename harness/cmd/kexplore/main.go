// kexplore: engine A — exhaustive exploration of the real kernel under a
// controlled AIO (see DESIGN.md §2.1).
package main

import (
	"encoding/json"
	"fmt"
	"os"

	"github.com/resonatehq/resonate/internal/verif/props"
	"github.com/resonatehq/resonate/internal/verif/runner"
)

func main() {
	prop := os.Getenv("VERIF_PROP")
	p, ok := props.Registry[prop]
	if !ok {
		fmt.Fprintf(os.Stderr, "kexplore: unknown property %q (set VERIF_PROP)\n", prop)
		os.Exit(2)
	}
	spec := p()
	spec.Replay = func(path string) int {
		b, err := os.ReadFile(path)
		if err != nil {
			fmt.Println(err)
			return 2
		}
		var f struct {
			Replay struct {
				Scenario string `json:"scenario"`
				Choices  []int  `json:"choices"`
			} `json:"replay"`
		}
		if err := json.Unmarshal(b, &f); err != nil {
			fmt.Println(err)
			return 2
		}
		var scs []*props.Scenario
		for _, tier := range []string{"quick", "thorough"} {
			for _, j := range spec.Jobs(tier) {
				if sj, ok := j.(*props.ScenarioJob); ok {
					scs = append(scs, sj.Sc)
				}
			}
		}
		return props.ReplayScenario(scs, f.Replay.Scenario, f.Replay.Choices)
	}
	runner.Main(spec)
}
