// threx: engine C — preemption-bounded thread interleavings of the instrumented
// queue / loop / worker code and of the poll transport.
package main

import (
	"fmt"
	"os"
	"strconv"

	"github.com/resonatehq/resonate/internal/verif/runner"
	"github.com/resonatehq/resonate/internal/verif/threx"
)

func main() {
	if n := os.Getenv("THREX_FREERUN"); n != "" {
		it, _ := strconv.Atoi(n)
		threx.FreeRunMain(os.Getenv("VERIF_PROP"), it)
		return
	}
	f, ok := threx.Specs[os.Getenv("VERIF_PROP")]
	if !ok {
		fmt.Fprintf(os.Stderr, "threx: unknown property %q (set VERIF_PROP)\n", os.Getenv("VERIF_PROP"))
		os.Exit(2)
	}
	runner.Main(f())
}
