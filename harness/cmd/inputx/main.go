// inputx: engine D — exhaustive input grammars through the real front ends.
package main

import (
	"fmt"
	"os"

	"github.com/resonatehq/resonate/internal/verif/inputx"
	"github.com/resonatehq/resonate/internal/verif/runner"
)

func main() {
	var spec *runner.Spec
	switch os.Getenv("VERIF_PROP") {
	case "C15":
		spec = inputx.C15Spec()
	default:
		if f, ok := inputx.Specs[os.Getenv("VERIF_PROP")]; ok {
			spec = f()
		}
	}
	if spec == nil {
		fmt.Fprintf(os.Stderr, "inputx: unknown property %q (set VERIF_PROP)\n", os.Getenv("VERIF_PROP"))
		os.Exit(2)
	}
	runner.Main(spec)
}
