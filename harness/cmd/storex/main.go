// storex: engine B — explicit-state search over store transactions against a
// reference model (C16) and across the two backends (C17).
package main

import (
	"fmt"
	"os"

	"github.com/resonatehq/resonate/internal/verif/runner"
	"github.com/resonatehq/resonate/internal/verif/storex"
)

func main() {
	f, ok := storex.Specs[os.Getenv("VERIF_PROP")]
	if !ok {
		fmt.Fprintf(os.Stderr, "storex: unknown property %q (set VERIF_PROP)\n", os.Getenv("VERIF_PROP"))
		os.Exit(2)
	}
	runner.Main(f())
}
