// rewrite: instruments the channel operations of a fixed list of source files for
// engine C (see DESIGN.md §2.3). go/parser + go/ast + go/printer, no type information.
//
//	ch <- v            -> vch.Send(ch, v)
//	<-ch               -> vch.Recv(ch)            v, ok := <-ch -> v, ok := vch.Recv2(ch)
//	close(ch)          -> vch.Close(ch) / vch.CloseSend(ch)
//	select {...}       -> switch vch.Select(hasDefault, cases...) {...}
//	go f(x)            -> vch.Go(func() { f(x) })
//	time.After/Now     -> vch.After / vch.Now       rand.Intn -> vch.Intn
//
// usage: rewrite <src.go> <dst.go> [-keepgo funcName]...
// Any channel syntax it does not know makes it fail (exit 1): the check then reports a
// harness error instead of silently exploring un-instrumented code.
package main

import (
	"bytes"
	"fmt"
	"go/ast"
	"go/format"
	"go/parser"
	"go/token"
	"os"
	"strings"
)

var (
	fset     = token.NewFileSet()
	keepGo   = map[string]bool{}
	sendOnly = map[string]bool{} // names of channels declared send-only in this file (close needs CloseSend)
	counter  int
	failed   []string
)

func fail(n ast.Node, msg string) {
	failed = append(failed, fmt.Sprintf("%s: %s", fset.Position(n.Pos()), msg))
}

func sel(x, s string) ast.Expr { return &ast.SelectorExpr{X: ast.NewIdent(x), Sel: ast.NewIdent(s)} }

func call(fn ast.Expr, args ...ast.Expr) *ast.CallExpr { return &ast.CallExpr{Fun: fn, Args: args} }

func exprString(e ast.Expr) string {
	var b bytes.Buffer
	_ = format.Node(&b, fset, e)
	return b.String()
}

// rewriteExpr replaces <-ch, close(ch), time.After, time.Now, rand.Intn inside an expression tree.
func rewriteExpr(e ast.Expr) ast.Expr {
	if e == nil {
		return nil
	}
	var out ast.Expr = e
	ast.Inspect(e, func(n ast.Node) bool { return true })
	out = walkExpr(e)
	return out
}

func walkExpr(e ast.Expr) ast.Expr {
	switch x := e.(type) {
	case nil:
		return nil
	case *ast.UnaryExpr:
		x.X = walkExpr(x.X)
		if x.Op == token.ARROW {
			return call(sel("vch", "Recv"), x.X)
		}
		return x
	case *ast.CallExpr:
		for i := range x.Args {
			x.Args[i] = walkExpr(x.Args[i])
		}
		x.Fun = walkExpr(x.Fun)
		if id, ok := x.Fun.(*ast.Ident); ok && id.Name == "close" && len(x.Args) == 1 {
			name := exprString(x.Args[0])
			if sendOnly[name] {
				return call(sel("vch", "CloseSend"), x.Args[0])
			}
			return call(sel("vch", "Close"), x.Args[0])
		}
		if s, ok := x.Fun.(*ast.SelectorExpr); ok {
			// x.mu.Lock() ... of a sync.Mutex / sync.RWMutex field or variable
			if len(x.Args) == 0 {
				switch s.Sel.Name {
				case "Lock", "Unlock", "RLock", "RUnlock":
					return call(sel("vch", s.Sel.Name), &ast.UnaryExpr{Op: token.AND, X: s.X})
				}
			}
			// x.server.Shutdown(ctx) of an *http.Server: the wait for the active handlers is
			// a blocking operation the scheduler has to see
			if inner, ok := s.X.(*ast.SelectorExpr); ok && s.Sel.Name == "Shutdown" && inner.Sel.Name == "server" && len(x.Args) == 1 {
				return call(sel("vch", "HTTPShutdown"), s.X, x.Args[0])
			}
			if id, ok := s.X.(*ast.Ident); ok {
				switch id.Name + "." + s.Sel.Name {
				case "time.After":
					return call(sel("vch", "After"), x.Args...)
				case "time.Now":
					return call(sel("vch", "Now"))
				case "rand.Intn":
					return call(sel("vch", "Intn"), x.Args...)
				}
			}
		}
		return x
	case *ast.BinaryExpr:
		x.X, x.Y = walkExpr(x.X), walkExpr(x.Y)
	case *ast.ParenExpr:
		x.X = walkExpr(x.X)
	case *ast.SelectorExpr:
		x.X = walkExpr(x.X)
	case *ast.IndexExpr:
		x.X, x.Index = walkExpr(x.X), walkExpr(x.Index)
	case *ast.StarExpr:
		x.X = walkExpr(x.X)
	case *ast.KeyValueExpr:
		x.Value = walkExpr(x.Value)
	case *ast.CompositeLit:
		for i := range x.Elts {
			x.Elts[i] = walkExpr(x.Elts[i])
		}
	case *ast.FuncLit:
		rewriteBlock(x.Body)
	case *ast.TypeAssertExpr:
		x.X = walkExpr(x.X)
	case *ast.SliceExpr:
		x.X, x.Low, x.High, x.Max = walkExpr(x.X), walkExpr(x.Low), walkExpr(x.High), walkExpr(x.Max)
	}
	return e
}

func rewriteBlock(b *ast.BlockStmt) {
	if b == nil {
		return
	}
	for i, st := range b.List {
		b.List[i] = rewriteStmt(st)
	}
}

func rewriteStmts(l []ast.Stmt) []ast.Stmt {
	for i, st := range l {
		l[i] = rewriteStmt(st)
	}
	return l
}

func rewriteStmt(st ast.Stmt) ast.Stmt {
	switch x := st.(type) {
	case nil:
		return nil
	case *ast.SendStmt:
		return &ast.ExprStmt{X: call(sel("vch", "Send"), walkExpr(x.Chan), walkExpr(x.Value))}
	case *ast.ExprStmt:
		x.X = walkExpr(x.X)
	case *ast.AssignStmt:
		if len(x.Lhs) == 2 && len(x.Rhs) == 1 {
			if u, ok := x.Rhs[0].(*ast.UnaryExpr); ok && u.Op == token.ARROW {
				x.Rhs[0] = call(sel("vch", "Recv2"), walkExpr(u.X))
				return x
			}
		}
		for i := range x.Rhs {
			x.Rhs[i] = walkExpr(x.Rhs[i])
		}
		for i := range x.Lhs {
			x.Lhs[i] = walkExpr(x.Lhs[i])
		}
	case *ast.DeclStmt:
		if gd, ok := x.Decl.(*ast.GenDecl); ok {
			for _, sp := range gd.Specs {
				if vs, ok := sp.(*ast.ValueSpec); ok {
					for i := range vs.Values {
						vs.Values[i] = walkExpr(vs.Values[i])
					}
				}
			}
		}
	case *ast.ReturnStmt:
		for i := range x.Results {
			x.Results[i] = walkExpr(x.Results[i])
		}
	case *ast.IfStmt:
		x.Init = rewriteStmt(x.Init)
		x.Cond = walkExpr(x.Cond)
		rewriteBlock(x.Body)
		x.Else = rewriteStmt(x.Else)
	case *ast.ForStmt:
		x.Init = rewriteStmt(x.Init)
		x.Cond = walkExpr(x.Cond)
		x.Post = rewriteStmt(x.Post)
		rewriteBlock(x.Body)
	case *ast.RangeStmt:
		if u, ok := x.X.(*ast.UnaryExpr); ok && u.Op == token.ARROW {
			fail(x, "range over a received value")
		}
		x.X = walkExpr(x.X)
		rewriteBlock(x.Body)
	case *ast.BlockStmt:
		rewriteBlock(x)
	case *ast.SwitchStmt:
		x.Init = rewriteStmt(x.Init)
		x.Tag = walkExpr(x.Tag)
		for _, c := range x.Body.List {
			cc := c.(*ast.CaseClause)
			for i := range cc.List {
				cc.List[i] = walkExpr(cc.List[i])
			}
			cc.Body = rewriteStmts(cc.Body)
		}
	case *ast.TypeSwitchStmt:
		for _, c := range x.Body.List {
			cc := c.(*ast.CaseClause)
			cc.Body = rewriteStmts(cc.Body)
		}
	case *ast.LabeledStmt:
		x.Stmt = rewriteStmt(x.Stmt)
	case *ast.DeferStmt:
		if r, ok := walkExpr(x.Call).(*ast.CallExpr); ok {
			x.Call = r
		}
	case *ast.GoStmt:
		if id, ok := x.Call.Fun.(*ast.SelectorExpr); ok && keepGo[id.Sel.Name] {
			return x
		}
		if fl, ok := x.Call.Fun.(*ast.FuncLit); ok {
			if keepGo["<funclit>"] {
				return x
			}
			rewriteBlock(fl.Body)
		}
		for i := range x.Call.Args {
			x.Call.Args[i] = walkExpr(x.Call.Args[i])
		}
		body := &ast.BlockStmt{List: []ast.Stmt{&ast.ExprStmt{X: x.Call}}}
		return &ast.ExprStmt{X: call(sel("vch", "Go"), &ast.FuncLit{Type: &ast.FuncType{Params: &ast.FieldList{}}, Body: body})}
	case *ast.SelectStmt:
		return rewriteSelect(x)
	case *ast.IncDecStmt, *ast.BranchStmt, *ast.EmptyStmt:
	default:
		fail(st, fmt.Sprintf("statement kind %T not handled", st))
	}
	return st
}

func rewriteSelect(s *ast.SelectStmt) ast.Stmt {
	counter++
	var pre []ast.Stmt
	var caseArgs []ast.Expr
	hasDefault := false
	sw := &ast.SwitchStmt{Body: &ast.BlockStmt{}}
	idx := 0
	for _, c := range s.Body.List {
		cc := c.(*ast.CommClause)
		body := rewriteStmts(cc.Body)
		if cc.Comm == nil {
			hasDefault = true
			sw.Body.List = append(sw.Body.List, &ast.CaseClause{List: nil, Body: body})
			continue
		}
		name := fmt.Sprintf("vchCase%d_%d", counter, idx)
		var assign []ast.Stmt
		switch cm := cc.Comm.(type) {
		case *ast.SendStmt:
			pre = append(pre, &ast.AssignStmt{Lhs: []ast.Expr{ast.NewIdent(name)}, Tok: token.DEFINE, Rhs: []ast.Expr{call(sel("vch", "SendCase"), walkExpr(cm.Chan), walkExpr(cm.Value))}})
		case *ast.ExprStmt:
			u, ok := cm.X.(*ast.UnaryExpr)
			if !ok || u.Op != token.ARROW {
				fail(cm, "select case is not a receive")
				continue
			}
			pre = append(pre, &ast.AssignStmt{Lhs: []ast.Expr{ast.NewIdent(name)}, Tok: token.DEFINE, Rhs: []ast.Expr{call(sel("vch", "RecvCase"), walkExpr(u.X))}})
		case *ast.AssignStmt:
			u, ok := cm.Rhs[0].(*ast.UnaryExpr)
			if !ok || u.Op != token.ARROW || len(cm.Rhs) != 1 {
				fail(cm, "select case assignment is not a receive")
				continue
			}
			pre = append(pre, &ast.AssignStmt{Lhs: []ast.Expr{ast.NewIdent(name)}, Tok: token.DEFINE, Rhs: []ast.Expr{call(sel("vch", "RecvCase"), walkExpr(u.X))}})
			rhs := []ast.Expr{sel(name, "V")}
			if len(cm.Lhs) == 2 {
				rhs = append(rhs, sel(name, "Ok"))
			}
			assign = append(assign, &ast.AssignStmt{Lhs: cm.Lhs, Tok: cm.Tok, Rhs: rhs})
			// avoid "declared and not used" for := in cases that ignore a value
			if cm.Tok == token.DEFINE {
				for _, l := range cm.Lhs {
					if id, ok := l.(*ast.Ident); ok && id.Name != "_" {
						assign = append(assign, &ast.AssignStmt{Lhs: []ast.Expr{ast.NewIdent("_")}, Tok: token.ASSIGN, Rhs: []ast.Expr{ast.NewIdent(id.Name)}})
					}
				}
			}
		default:
			fail(cc.Comm, fmt.Sprintf("select comm %T not handled", cc.Comm))
			continue
		}
		caseArgs = append(caseArgs, ast.NewIdent(name))
		sw.Body.List = append(sw.Body.List, &ast.CaseClause{List: []ast.Expr{&ast.BasicLit{Kind: token.INT, Value: fmt.Sprint(idx)}}, Body: append(assign, body...)})
		idx++
	}
	hd := "false"
	if hasDefault {
		hd = "true"
	}
	sw.Tag = call(sel("vch", "Select"), append([]ast.Expr{ast.NewIdent(hd)}, caseArgs...)...)
	return &ast.BlockStmt{List: append(pre, sw)}
}

func main() {
	if len(os.Args) < 3 {
		fmt.Fprintln(os.Stderr, "usage: rewrite src dst [-keepgo name]...")
		os.Exit(2)
	}
	for i := 3; i+1 < len(os.Args); i += 2 {
		if os.Args[i] == "-keepgo" {
			keepGo[os.Args[i+1]] = true
		}
	}
	f, err := parser.ParseFile(fset, os.Args[1], nil, 0)
	if err != nil {
		fmt.Fprintln(os.Stderr, err)
		os.Exit(1)
	}
	// channels declared send-only (struct fields / params): close needs the send-only helper
	ast.Inspect(f, func(n ast.Node) bool {
		if fl, ok := n.(*ast.Field); ok {
			if ct, ok := fl.Type.(*ast.ChanType); ok && ct.Dir == ast.SEND {
				for _, nm := range fl.Names {
					sendOnly[nm.Name] = true
				}
			}
		}
		return true
	})
	// "s.sq"-style selector names of send-only fields
	so := map[string]bool{}
	for n := range sendOnly {
		so[n] = true
	}
	sendOnly = map[string]bool{}
	ast.Inspect(f, func(n ast.Node) bool {
		if c, ok := n.(*ast.CallExpr); ok {
			if id, ok := c.Fun.(*ast.Ident); ok && id.Name == "close" && len(c.Args) == 1 {
				switch a := c.Args[0].(type) {
				case *ast.SelectorExpr:
					if so[a.Sel.Name] {
						sendOnly[exprString(a)] = true
					}
				case *ast.Ident:
					if so[a.Name] {
						sendOnly[a.Name] = true
					}
				}
			}
		}
		return true
	})
	for _, d := range f.Decls {
		if fd, ok := d.(*ast.FuncDecl); ok && fd.Body != nil {
			rewriteBlock(fd.Body)
		}
	}
	if len(failed) > 0 {
		fmt.Fprintln(os.Stderr, "rewrite: cannot instrument:\n  "+strings.Join(failed, "\n  "))
		os.Exit(1)
	}
	// imports: add vch; drop math/rand and time if no longer used is left to goimports-free approach:
	// keep them referenced through blank uses
	var out bytes.Buffer
	if err := format.Node(&out, fset, f); err != nil {
		fmt.Fprintln(os.Stderr, err)
		os.Exit(1)
	}
	src := out.String()
	imp := "\t\"github.com/resonatehq/resonate/internal/verif/vch\"\n"
	if i := strings.Index(src, "import ("); i >= 0 {
		src = src[:i+len("import (\n")] + imp + src[i+len("import (\n"):]
	} else {
		fmt.Fprintln(os.Stderr, "rewrite: no import block")
		os.Exit(1)
	}
	// a file may have lost its last use of time / rand
	src += "\nvar _ = vch.Now\n"
	for _, pkg := range []struct{ path, use string }{{"\"time\"", "time.Second"}, {"\"math/rand\"", "rand.Intn"}} {
		if strings.Contains(src, pkg.path) {
			src += "var _ = " + pkg.use + "\n"
		}
	}
	if err := os.WriteFile(os.Args[2], []byte(src), 0o644); err != nil {
		fmt.Fprintln(os.Stderr, err)
		os.Exit(1)
	}
}
