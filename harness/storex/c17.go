package storex

import (
	"fmt"
	"sort"
	"time"

	"github.com/resonatehq/resonate/internal/kernel/t_aio"
	"github.com/resonatehq/resonate/internal/verif/runner"
	"github.com/resonatehq/resonate/internal/verif/world"
)

// C17Job: the same transaction sequences through BOTH real backends from the same
// state; results and tables must agree with each other and with the model.
type C17Job struct {
	Populated int
	First     int
	Depth     int
	Tier      string
}

func (j *C17Job) Name() string {
	return fmt.Sprintf("C17/populated=%v/first=%03d", j.Populated, j.First)
}

func (j *C17Job) Run(deadline time.Time) *runner.JobResult {
	res := &runner.JobResult{Name: j.Name(), Counters: map[string]int64{}}
	alpha := Alphabet(j.Tier)
	if j.First >= len(alpha) {
		return res
	}
	sq := NewSqliteBackend(":memory:")
	defer sq.Close()
	pg := NewPostgresBackend()
	defer pg.Close()
	viol := func(sig, format string, a ...any) {
		for _, v := range res.Violations {
			if v.Sig == sig {
				return
			}
		}
		res.Violations = append(res.Violations, runner.Violation{Sig: sig, Msg: fmt.Sprintf(format, a...), Job: j.Name(), Replay: map[string]any{"job": j.Name(), "sig": sig}})
	}
	labelsOf := func(path []int) []string {
		var l []string
		for _, i := range path {
			l = append(l, alpha[i].Label)
		}
		return l
	}
	replay := func(be *Backend, path []int) {
		be.Reset()
		for _, i := range path {
			be.Exec([][]*t_aio.Command{alpha[i].Cmds()})
		}
	}
	step := func(n *node, ti int) *Model {
		tx := alpha[ti]
		nm := n.model.Clone()
		var want []MResult
		var pres []*world.Dump
		failed := false
		for _, c := range tx.Cmds() {
			snap := nm.Clone()
			pres = append(pres, snap.D)
			r := nm.Apply(c)
			want = append(want, r)
			if r.Err {
				failed = true
				break
			}
		}
		replay(sq, n.path)
		replay(pg, n.path)
		sqPre, pgPre := sq.Dump(), pg.Dump()
		gs, es := sq.Exec([][]*t_aio.Command{tx.Cmds()})
		gp, ep := pg.Exec([][]*t_aio.Command{tx.Cmds()})
		res.Transitions++
		where := fmt.Sprintf("after %v, transaction %s", labelsOf(n.path), tx.Label)
		ds, dp := NormText(sq.Dump()), NormText(pg.Dump())
		if (es[0] != nil) != (ep[0] != nil) {
			viol("C17:error-on-one-backend:"+kindsOf(tx), "%s: sqlite error %v, postgres error %v", where, es[0], ep[0])
			return nil
		}
		if ds != dp {
			viol("C17:tables-differ:"+kindsOf(tx), "%s: the backends leave different tables\n--- sqlite:\n%s--- postgres:\n%s", where, ds, dp)
			return nil
		}
		if failed || es[0] != nil {
			return nil
		}
		if len(gs[0]) != len(gp[0]) || len(gp[0]) != len(want) {
			viol("C17:result-count:"+kindsOf(tx), "%s: %d vs %d results", where, len(gs[0]), len(gp[0]))
			return nil
		}
		for ci := range want {
			if d := CompareResult(gp[0][ci], want[ci], pres[ci], pgPre, len(want) == 1); d != "" {
				viol("C17:postgres-result:"+want[ci].Kind, "%s, command %d (%s) on the Postgres backend: %s", where, ci, want[ci].Kind, d)
			}
			if d := CompareResult(gs[0][ci], want[ci], pres[ci], sqPre, len(want) == 1); d != "" {
				viol("C17:sqlite-result:"+want[ci].Kind, "%s, command %d (%s) on the SQLite backend: %s", where, ci, want[ci].Kind, d)
			}
		}
		if dp != nm.NormText() {
			viol("C17:postgres-effect:"+kindsOf(tx), "%s: the Postgres backend's tables differ from the model\n--- postgres:\n%s--- model:\n%s", where, dp, nm.NormText())
			return nil
		}
		return nm
	}
	root := &node{model: NewModel()}
	if j.Populated > 0 {
		for _, ti := range populatedPrefix(alpha, j.Populated) {
			nm := step(root, ti)
			if nm == nil {
				if len(res.Violations) == 0 {
					res.HarnessErr = "the populated prefix does not apply: " + alpha[ti].Label
				}
				return res
			}
			root = &node{path: append(append([]int{}, root.path...), ti), model: nm}
		}
	}
	m1 := step(root, j.First)
	seen := map[string]bool{}
	var frontier []*node
	if m1 != nil {
		frontier = []*node{{path: append(append([]int{}, root.path...), j.First), model: m1}}
		seen[stateKey(m1)] = true
	}
	for depth := 1; depth < j.Depth && len(frontier) > 0; depth++ {
		var next []*node
		for _, n := range frontier {
			if !deadline.IsZero() && time.Now().After(deadline) {
				res.Capped = true
				break
			}
			for ti := range alpha {
				runner.Trace(fmt.Sprintf("JOB %s path %v + %d", j.Name(), n.path, ti))
				nm := step(n, ti)
				if nm == nil {
					continue
				}
				if k := stateKey(nm); !seen[k] {
					seen[k] = true
					next = append(next, &node{path: append(append([]int{}, n.path...), ti), model: nm})
				}
			}
		}
		frontier = next
	}
	// batches: this job's first transaction together with every mutating transaction, in both
	// orders, as ONE batch (one SQL transaction, prepared statements shared between the
	// commands) on both backends from the job's start state
	if alpha[j.First].Mutating {
		for bi, b := range alpha {
			if !b.Mutating || (!deadline.IsZero() && time.Now().After(deadline)) {
				continue
			}
			for _, order := range [][2]int{{j.First, bi}, {bi, j.First}} {
				runner.Trace(fmt.Sprintf("JOB %s batch [%s, %s]", j.Name(), alpha[order[0]].Label, alpha[order[1]].Label))
				replay(sq, root.path)
				replay(pg, root.path)
				batch := [][]*t_aio.Command{alpha[order[0]].Cmds(), alpha[order[1]].Cmds()}
				_, es := sq.Exec(batch)
				batch = [][]*t_aio.Command{alpha[order[0]].Cmds(), alpha[order[1]].Cmds()}
				_, ep := pg.Exec(batch)
				res.Transitions++
				res.Counters["batches_on_both_backends"]++
				where := fmt.Sprintf("after %v, batch [%s, %s]", labelsOf(root.path), alpha[order[0]].Label, alpha[order[1]].Label)
				if (es[0] != nil) != (ep[0] != nil) || (es[1] != nil) != (ep[1] != nil) {
					viol("C17:batch-error-on-one-backend:"+kindsOf(alpha[order[0]])+"+"+kindsOf(alpha[order[1]]), "%s: sqlite errors %v %v, postgres errors %v %v", where, es[0], es[1], ep[0], ep[1])
					continue
				}
				if ds, dp := NormText(sq.Dump()), NormText(pg.Dump()); ds != dp {
					viol("C17:batch-tables-differ:"+kindsOf(alpha[order[0]])+"+"+kindsOf(alpha[order[1]]), "%s: the backends leave different tables\n--- sqlite:\n%s--- postgres:\n%s", where, ds, dp)
				}
			}
		}
	}
	res.States, res.Executions = int64(len(seen)), res.Transitions
	for k := range seen {
		res.Outcomes = append(res.Outcomes, hashStr(k))
	}
	sort.Strings(res.Outcomes)
	res.Samples = []any{map[string]any{"first": alpha[j.First].Label, "populated": j.Populated}}
	return res
}

func init() {
	Specs["C17"] = func() *runner.Spec {
		return &runner.Spec{
			Property: "C17", Engine: "storex", Level: "model_checking",
			Jobs: func(tier string) []runner.Job {
				var jobs []runner.Job
				d := 3
				if tier == "thorough" {
					d = 4
				}
				for i := range Alphabet(tier) {
					jobs = append(jobs, &C17Job{First: i, Depth: d, Tier: tier}, &C17Job{Populated: 1, First: i, Depth: d - 1, Tier: tier}, &C17Job{Populated: 2, First: i, Depth: d - 1, Tier: tier})
				}
				return jobs
			},
			Rule:   "the breadth-first search of C16 (all 27 command kinds, depth 3 / 4 from the empty database, depth 2 / 3 from two populated states) executed on BOTH real Go backends - SqliteStoreWorker on SQLite and PostgresStoreWorker on a driver that translates the Postgres dialect to SQLite - from identical states, plus every job's first transaction with every mutating transaction as ONE batch in both orders on both backends; on every transition: error on one backend only, row counts, returned records, sort order and the resulting five tables (sort ids by rank) are compared between the backends and with the reference model; distinct = distinct reached database states",
			Assume: []string{"TRUSTED: the dialect translation of pgshim ($n, casts, @>, DISTINCT ON, SERIAL) - real PostgreSQL type coercion, collation, LIKE case-sensitivity and MVCC with several workers are NOT executed (no server in the sandbox)", "documented dialect differences normalised: JSON text formatting, sort id gaps, row choice where neither statement orders it"},
			QuickS: 150, ThoroughS: 1800,
		}
	}
}
