package storex

import "github.com/resonatehq/resonate/internal/verif/runner"

var Specs = map[string]func() *runner.Spec{}

func init() {
	Specs["C16"] = func() *runner.Spec {
		return &runner.Spec{
			Property: "C16", Engine: "storex", Level: "model_checking",
			Jobs: func(tier string) []runner.Job {
				// the isolation probe first: it must not fall behind the budget of the search jobs
				jobs := []runner.Job{&IsolationJob{Tier: tier}}
				depth := 3
				if tier == "thorough" {
					depth = 4
				}
				for i := range Alphabet(tier) {
					jobs = append(jobs, &C16Job{First: i, Depth: depth, Tier: tier, Pairs: true})
					jobs = append(jobs, &C16Job{Populated: 1, First: i, Depth: depth - 1, Tier: tier, Pairs: tier == "thorough"})
					jobs = append(jobs, &C16Job{Populated: 2, First: i, Depth: depth - 1, Tier: tier, Pairs: tier == "thorough"})
				}
				return jobs
			},
			Rule:   "breadth-first search over sequences of store transactions (all 27 command kinds with arguments from tiny domains plus the multi-command transactions the coroutines issue) executed by the REAL SqliteStore through store.Process, depth 3 (4 thorough) from the empty database and depth 2 (3) from two populated states (two rows per table, completed and pending promises, registrations, tasks in several states, locks), deduplicated by canonical table dump; every transition compares row counts, returned records (column by column) and the resulting five tables with a Go reference model; from the first reached states every ordered pair of mutating transactions as ONE batch must equal the sequence, and an SQL error injected (trigger) before / between / after must undo the batch and fail every submission; a separate job checks through SQLite's update hook that a second connection still reads the pre-batch state at every row change; distinct = distinct reached database states",
			Assume: []string{"argument domains are tiny (2 ids per table, times 0..10); SQLite's own transaction machinery is trusted; LIKE is exercised on lowercase ids without metacharacters"},
			QuickS: 150, ThoroughS: 1800,
		}
	}
}
