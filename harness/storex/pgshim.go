package storex

import (
	"context"
	"database/sql"
	"database/sql/driver"
	"encoding/json"
	"fmt"
	"regexp"
	"strings"
	"sync"

	sqlite3 "github.com/mattn/go-sqlite3"
)

// pgshim: a database/sql driver that accepts the statements postgres.go issues,
// rewrites the Postgres dialect into SQLite's and runs them on go-sqlite3. It lets the
// REAL PostgresStoreWorker (guards, argument order, column lists, result mapping) run
// without a PostgreSQL server. Trusted base of C17: these translation rules.
//
//	$n                      -> ?n
//	expr::int, expr::jsonb  -> expr
//	tags @> ?k              -> jsonb_contains(tags, ?k)   (registered Go function)
//	SELECT DISTINCT ON (c) cols FROM t WHERE w ORDER BY c, s LIMIT n
//	                        -> ROW_NUMBER() OVER (PARTITION BY c ORDER BY s) = 1
//	sort_id SERIAL + PRIMARY KEY(id) -> INTEGER PRIMARY KEY AUTOINCREMENT + UNIQUE(id)

var (
	reParam    = regexp.MustCompile(`\$(\d+)`)
	reCast     = regexp.MustCompile(`::(int|jsonb|text|bigint)\b`)
	reContains = regexp.MustCompile(`(\w+)\s*@>\s*(\?\d+)`)
	reDistinct = regexp.MustCompile(`(?s)SELECT\s+DISTINCT\s+ON\s*\((\w+)\)\s*(.*?)\s+FROM\s+(\w+\s+\w+)\s+WHERE\s+(.*?)\s+ORDER\s+BY\s+(\w+)\s*,\s*(\w+)\s+ASC\s+LIMIT\s+(\?\d+)`)
	reSerial   = regexp.MustCompile(`(?s)CREATE TABLE IF NOT EXISTS (\w+) \((.*?)\);`)
)

var translateCache sync.Map

func Translate(q string) string {
	if v, ok := translateCache.Load(q); ok {
		return v.(string)
	}
	o := q
	if strings.Contains(o, "CREATE TABLE") {
		o = reSerial.ReplaceAllStringFunc(o, func(t string) string {
			if !strings.Contains(t, "SERIAL") {
				return t
			}
			t = regexp.MustCompile(`sort_id\s+SERIAL`).ReplaceAllString(t, "sort_id INTEGER PRIMARY KEY AUTOINCREMENT")
			return strings.Replace(t, "PRIMARY KEY(id)", "UNIQUE(id)", 1)
		})
	}
	o = reParam.ReplaceAllString(o, "?$1")
	o = reCast.ReplaceAllString(o, "")
	o = reContains.ReplaceAllString(o, "jsonb_contains($1, $2)")
	if m := reDistinct.FindStringSubmatch(o); m != nil {
		part, cols, from, where, ord1, ord2, lim := m[1], m[2], m[3], m[4], m[5], m[6], m[7]
		_ = ord1
		rewritten := fmt.Sprintf("SELECT %s FROM (SELECT %s, ROW_NUMBER() OVER (PARTITION BY %s ORDER BY %s ASC) AS verif_rn FROM %s WHERE %s) WHERE verif_rn = 1 ORDER BY %s LIMIT %s", cols, cols, part, ord2, from, where, part, lim)
		o = strings.Replace(o, m[0], rewritten, 1)
	}
	translateCache.Store(q, o)
	return o
}

func jsonbContains(a, b any) bool {
	toMap := func(v any) map[string]any {
		var s []byte
		switch x := v.(type) {
		case []byte:
			s = x
		case string:
			s = []byte(x)
		default:
			return nil
		}
		m := map[string]any{}
		if json.Unmarshal(s, &m) != nil {
			return nil
		}
		return m
	}
	ma, mb := toMap(a), toMap(b)
	if ma == nil || mb == nil {
		return false
	}
	for k, v := range mb {
		w, ok := ma[k]
		if !ok || fmt.Sprint(w) != fmt.Sprint(v) {
			return false
		}
	}
	return true
}

type shimDriver struct{ inner *sqlite3.SQLiteDriver }

type shimConn struct{ c *sqlite3.SQLiteConn }

func (d *shimDriver) Open(name string) (driver.Conn, error) {
	c, err := d.inner.Open(name)
	if err != nil {
		return nil, err
	}
	return &shimConn{c: c.(*sqlite3.SQLiteConn)}, nil
}

func (c *shimConn) Prepare(q string) (driver.Stmt, error) { return c.c.Prepare(Translate(q)) }
func (c *shimConn) Close() error                          { return c.c.Close() }
func (c *shimConn) Begin() (driver.Tx, error)             { return c.c.Begin() }
func (c *shimConn) BeginTx(ctx context.Context, o driver.TxOptions) (driver.Tx, error) {
	return c.c.BeginTx(ctx, o)
}
func (c *shimConn) PrepareContext(ctx context.Context, q string) (driver.Stmt, error) {
	return c.c.PrepareContext(ctx, Translate(q))
}
func (c *shimConn) ExecContext(ctx context.Context, q string, a []driver.NamedValue) (driver.Result, error) {
	return c.c.ExecContext(ctx, Translate(q), a)
}
func (c *shimConn) QueryContext(ctx context.Context, q string, a []driver.NamedValue) (driver.Rows, error) {
	return c.c.QueryContext(ctx, Translate(q), a)
}
func (c *shimConn) Ping(ctx context.Context) error { return c.c.Ping(ctx) }

var registerOnce sync.Once

func openShim() *sql.DB {
	registerOnce.Do(func() {
		sql.Register("pgshim", &shimDriver{inner: &sqlite3.SQLiteDriver{ConnectHook: func(c *sqlite3.SQLiteConn) error {
			return c.RegisterFunc("jsonb_contains", jsonbContains, true)
		}}})
	})
	db, err := sql.Open("pgshim", ":memory:")
	if err != nil {
		panic(err)
	}
	db.SetMaxOpenConns(1)
	return db
}
