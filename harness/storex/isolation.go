package storex

import (
	"context"
	"database/sql"
	"fmt"
	"os"
	"time"

	sqlite3 "github.com/mattn/go-sqlite3"
	"github.com/resonatehq/resonate/internal/kernel/t_aio"
	"github.com/resonatehq/resonate/internal/verif/runner"
	"github.com/resonatehq/resonate/internal/verif/world"
)

// IsolationJob: the commands of a batch become visible to other connections only at
// commit. The store works on a database file; SQLite's update hook on the store's
// connection fires at every row change inside the batch, and at each of them a SECOND
// connection must still read exactly the pre-batch tables.
type IsolationJob struct{ Tier string }

func (j *IsolationJob) Name() string { return "C16/isolation" }

func (j *IsolationJob) Run(deadline time.Time) *runner.JobResult {
	res := &runner.JobResult{Name: j.Name(), Counters: map[string]int64{}}
	dir, err := os.MkdirTemp("", "storex")
	if err != nil {
		res.HarnessErr = err.Error()
		return res
	}
	defer os.RemoveAll(dir)
	path := dir + "/iso.db"
	be := NewSqliteBackend(path)
	defer be.Close()
	obs, err := sql.Open("sqlite3", "file:"+path+"?mode=ro")
	if err != nil {
		res.HarnessErr = err.Error()
		return res
	}
	defer obs.Close()
	obs.SetMaxOpenConns(1)

	var pre string
	probes, bad := 0, ""
	conn, err := be.DB.Conn(context.Background())
	if err != nil {
		res.HarnessErr = err.Error()
		return res
	}
	err = conn.Raw(func(dc any) error {
		dc.(*sqlite3.SQLiteConn).RegisterUpdateHook(func(op int, db string, table string, rowid int64) {
			if table == "sqlite_sequence" {
				return
			}
			probes++
			d, err := world.DumpDB(obs)
			if err != nil {
				bad = fmt.Sprintf("observer cannot read during the batch: %v", err)
				return
			}
			if d.Text() != pre && bad == "" {
				bad = fmt.Sprintf("while the batch was changing table %s a second connection read\n%s--- instead of the pre-batch state\n%s", table, d.Text(), pre)
			}
		})
		return nil
	})
	conn.Close()
	if err != nil {
		res.HarnessErr = err.Error()
		return res
	}
	alpha := Alphabet(j.Tier)
	var muts []int
	for i, t := range alpha {
		if t.Mutating {
			muts = append(muts, i)
		}
	}
	// prefix states: empty, and after each single mutating transaction
	prefixes := [][]int{{}}
	for _, a := range muts {
		prefixes = append(prefixes, []int{a})
	}
	for pi, pf := range prefixes {
		if (j.Tier != "thorough" && pi > 5) || (!deadline.IsZero() && time.Now().After(deadline)) {
			break
		}
		for _, a := range muts {
			for _, b := range muts {
				if j.Tier != "thorough" && (a+b+pi)%3 != 0 {
					continue // quick: every third pair per prefix (all pairs over three prefixes)
				}
				pre = ""
				be.Reset()
				for _, i := range pf {
					be.Exec([][]*t_aio.Command{alpha[i].Cmds()})
				}
				pre = be.Dump().Text()
				bad = ""
				_, errs := be.Exec([][]*t_aio.Command{alpha[a].Cmds(), alpha[b].Cmds()})
				res.Transitions++
				if bad != "" {
					res.Violations = append(res.Violations, runner.Violation{Sig: "C16:batch-visible-before-commit", Job: j.Name(), Msg: fmt.Sprintf("batch [%s, %s]: %s", alpha[a].Label, alpha[b].Label, bad), Replay: map[string]any{"job": j.Name()}})
					res.Counters["isolation_probes"] = int64(probes)
					return res
				}
				if errs[0] == nil {
					if after, _ := world.DumpDB(obs); after != nil && after.Text() != be.Dump().Text() {
						res.Violations = append(res.Violations, runner.Violation{Sig: "C16:commit-not-visible", Job: j.Name(), Msg: "after the commit a second connection does not read the new state", Replay: map[string]any{"job": j.Name()}})
						return res
					}
				}
			}
		}
	}
	res.Counters["isolation_probes"] = int64(probes)
	res.Executions, res.States = res.Transitions, int64(len(prefixes))
	res.Outcomes = []string{fmt.Sprintf("probes>0:%v", probes > 0), "batches"}
	res.Samples = []any{map[string]any{"isolation_probes": probes}}
	if probes == 0 && res.Transitions == 0 {
		res.Capped = true // the budget was spent before this job started: nothing was probed
		return res
	}
	if probes == 0 {
		res.HarnessErr = "the update hook never fired: the isolation probe is vacuous"
	}
	return res
}
