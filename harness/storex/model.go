// Package storex is engine B: explicit-state search over store transactions. The
// transition relation is the REAL store (SqliteStoreWorker / PostgresStoreWorker
// through store.Process); every transition is compared with this reference model,
// five maps and one arm per command stating its guard and effect as C16 words it.
package storex

import (
	"encoding/json"
	"fmt"
	"regexp"
	"sort"
	"strings"

	"github.com/resonatehq/resonate/internal/kernel/t_aio"
	"github.com/resonatehq/resonate/internal/verif/world"
)

type Model struct {
	D *world.Dump
	// AUTOINCREMENT counters: the next sort_id of each table
	nextP, nextS, nextT int64
}

func NewModel() *Model {
	return &Model{D: &world.Dump{
		Promises: map[string]*world.PromiseRow{}, Callbacks: map[string]*world.CallbackRow{}, Schedules: map[string]*world.ScheduleRow{},
		Locks: map[string]*world.LockRow{}, Tasks: map[string]*world.TaskRow{}},
		nextP: 1, nextS: 1, nextT: 1}
}

func (m *Model) Clone() *Model {
	c := NewModel()
	c.nextP, c.nextS, c.nextT = m.nextP, m.nextS, m.nextT
	for k, v := range m.D.Promises {
		x := *v
		c.D.Promises[k] = &x
	}
	for k, v := range m.D.Callbacks {
		x := *v
		c.D.Callbacks[k] = &x
	}
	for k, v := range m.D.Schedules {
		x := *v
		c.D.Schedules[k] = &x
	}
	for k, v := range m.D.Locks {
		x := *v
		c.D.Locks[k] = &x
	}
	for k, v := range m.D.Tasks {
		x := *v
		c.D.Tasks[k] = &x
	}
	return c
}

// Text is the canonical rendering (a fresh dump object: Text caches).
func (m *Model) Text() string {
	d := &world.Dump{Promises: m.D.Promises, Callbacks: m.D.Callbacks, Schedules: m.D.Schedules, Locks: m.D.Locks, Tasks: m.D.Tasks}
	return d.Text()
}

func js(v any) string {
	b, _ := json.Marshal(v)
	return string(b)
}

func sp(s string) *string { return &s }
func ip(i int64) *int64   { return &i }

func keyStr(k interface{ String() string }, isNil bool) *string {
	if isNil {
		return nil
	}
	s := k.String()
	return &s
}

func likeRe(pat string) *regexp.Regexp {
	// the store turns * into %, then LIKE: % any run, _ any one character
	var b strings.Builder
	b.WriteString("(?is)^")
	for _, r := range strings.ReplaceAll(pat, "*", "%") {
		switch r {
		case '%':
			b.WriteString(".*")
		case '_':
			b.WriteString(".")
		default:
			b.WriteString(regexp.QuoteMeta(string(r)))
		}
	}
	b.WriteString("$")
	return regexp.MustCompile(b.String())
}

func tagsMatch(rowTags string, want map[string]string) bool {
	m := map[string]string{}
	_ = json.Unmarshal([]byte(rowTags), &m)
	for k, v := range want {
		if g, ok := m[k]; !ok || g != v {
			return false
		}
	}
	return true
}

// MResult is the model's prediction for one command. Reads whose row choice or order
// the SQL leaves open carry the set of admissible rows instead of a list.
type MResult struct {
	Kind     string
	Rows     int64    // RowsAffected / RowsReturned
	Rows2    int64    // TaskRowsAffected of CreatePromiseAndTask
	Ids      []string // ids returned, in order (ordered reads)
	AnyOf    []string // unordered read: any Rows of these ids
	PerRoot  map[string][]string // ReadEnqueueableTasks: one of these per root, roots in order
	LastSort int64
	Err      bool
}

func (m *Model) Apply(c *t_aio.Command) MResult {
	d := m.D
	switch c.Kind {
	case t_aio.ReadPromise:
		if _, ok := d.Promises[c.ReadPromise.Id]; ok {
			return MResult{Kind: "ReadPromise", Rows: 1, Ids: []string{c.ReadPromise.Id}}
		}
		return MResult{Kind: "ReadPromise"}
	case t_aio.ReadPromises:
		var el []string
		for id, p := range d.Promises {
			if p.State == 1 && p.Timeout <= c.ReadPromises.Time {
				el = append(el, id)
			}
		}
		sort.Strings(el)
		n := len(el)
		if c.ReadPromises.Limit < n {
			n = c.ReadPromises.Limit
		}
		return MResult{Kind: "ReadPromises", Rows: int64(n), AnyOf: el}
	case t_aio.SearchPromises:
		q := c.SearchPromises
		re := likeRe(q.Id)
		mask := 0
		for _, s := range q.States {
			mask |= int(s)
		}
		var rows []*world.PromiseRow
		for id, p := range d.Promises {
			if (q.SortId == nil || p.SortId < *q.SortId) && re.MatchString(id) && p.State&mask != 0 && tagsMatch(p.Tags, q.Tags) {
				rows = append(rows, p)
			}
		}
		sort.Slice(rows, func(i, j int) bool { return rows[i].SortId > rows[j].SortId })
		if len(rows) > q.Limit {
			rows = rows[:q.Limit]
		}
		r := MResult{Kind: "SearchPromises", Rows: int64(len(rows))}
		for _, p := range rows {
			r.Ids = append(r.Ids, p.Id)
			r.LastSort = p.SortId
		}
		return r
	case t_aio.CreatePromise:
		return MResult{Kind: "CreatePromise", Rows: m.createPromise(c.CreatePromise)}
	case t_aio.UpdatePromise:
		q := c.UpdatePromise
		p, ok := d.Promises[q.Id]
		if !ok || p.State != 1 {
			return MResult{Kind: "UpdatePromise"}
		}
		p.State = int(q.State)
		p.ValueHeaders, p.ValueData = sp(js(q.Value.Headers)), sp(string(q.Value.Data))
		p.IkComplete = keyStr(q.IdempotencyKey, q.IdempotencyKey == nil)
		p.CompletedOn = ip(q.CompletedOn)
		return MResult{Kind: "UpdatePromise", Rows: 1}
	case t_aio.CreateCallback:
		q := c.CreateCallback
		if p, ok := d.Promises[q.PromiseId]; !ok || p.State != 1 {
			return MResult{Kind: "CreateCallback"}
		}
		if _, ok := d.Callbacks[q.Id]; ok {
			return MResult{Kind: "CreateCallback"}
		}
		d.Callbacks[q.Id] = &world.CallbackRow{Id: q.Id, PromiseId: q.PromiseId, RootPromiseId: q.Mesg.Root, Recv: string(q.Recv), Mesg: js(q.Mesg), Timeout: q.Timeout, CreatedOn: q.CreatedOn}
		return MResult{Kind: "CreateCallback", Rows: 1}
	case t_aio.DeleteCallbacks:
		n := int64(0)
		for id, cb := range d.Callbacks {
			if cb.PromiseId == c.DeleteCallbacks.PromiseId {
				delete(d.Callbacks, id)
				n++
			}
		}
		return MResult{Kind: "DeleteCallbacks", Rows: n}

	case t_aio.ReadSchedule:
		if _, ok := d.Schedules[c.ReadSchedule.Id]; ok {
			return MResult{Kind: "ReadSchedule", Rows: 1, Ids: []string{c.ReadSchedule.Id}}
		}
		return MResult{Kind: "ReadSchedule"}
	case t_aio.ReadSchedules:
		var rows []*world.ScheduleRow
		for _, s := range d.Schedules {
			if s.NextRunTime <= c.ReadSchedules.NextRunTime {
				rows = append(rows, s)
			}
		}
		sort.Slice(rows, func(i, j int) bool {
			if rows[i].NextRunTime != rows[j].NextRunTime {
				return rows[i].NextRunTime < rows[j].NextRunTime
			}
			return rows[i].SortId < rows[j].SortId
		})
		if len(rows) > c.ReadSchedules.Limit {
			rows = rows[:c.ReadSchedules.Limit]
		}
		r := MResult{Kind: "ReadSchedules", Rows: int64(len(rows))}
		for _, s := range rows {
			r.Ids = append(r.Ids, s.Id)
		}
		return r
	case t_aio.SearchSchedules:
		q := c.SearchSchedules
		re := likeRe(q.Id)
		var rows []*world.ScheduleRow
		for id, s := range d.Schedules {
			if (q.SortId == nil || s.SortId < *q.SortId) && re.MatchString(id) && tagsMatch(s.Tags, q.Tags) {
				rows = append(rows, s)
			}
		}
		sort.Slice(rows, func(i, j int) bool { return rows[i].SortId > rows[j].SortId })
		if len(rows) > q.Limit {
			rows = rows[:q.Limit]
		}
		r := MResult{Kind: "SearchSchedules", Rows: int64(len(rows))}
		for _, s := range rows {
			r.Ids = append(r.Ids, s.Id)
			r.LastSort = s.SortId
		}
		return r
	case t_aio.CreateSchedule:
		q := c.CreateSchedule
		if _, ok := d.Schedules[q.Id]; ok {
			m.nextS += int64(serialGap) // (Postgres consumes a sequence value on conflict; SQLite does not)
			return MResult{Kind: "CreateSchedule"}
		}
		d.Schedules[q.Id] = &world.ScheduleRow{Id: q.Id, SortId: m.nextS, Description: q.Description, Cron: q.Cron, Tags: js(q.Tags), PromiseId: q.PromiseId, PromiseTimeout: q.PromiseTimeout,
			ParamHeaders: js(q.PromiseParam.Headers), ParamData: string(q.PromiseParam.Data), PromiseTags: js(q.PromiseTags), NextRunTime: q.NextRunTime, Ik: keyStr(q.IdempotencyKey, q.IdempotencyKey == nil), CreatedOn: q.CreatedOn}
		m.nextS++
		return MResult{Kind: "CreateSchedule", Rows: 1}
	case t_aio.UpdateSchedule:
		q := c.UpdateSchedule
		s, ok := d.Schedules[q.Id]
		if !ok || q.LastRunTime == nil || s.NextRunTime != *q.LastRunTime {
			return MResult{Kind: "UpdateSchedule"}
		}
		s.LastRunTime = ip(s.NextRunTime)
		s.NextRunTime = q.NextRunTime
		return MResult{Kind: "UpdateSchedule", Rows: 1}
	case t_aio.DeleteSchedule:
		if _, ok := d.Schedules[c.DeleteSchedule.Id]; ok {
			delete(d.Schedules, c.DeleteSchedule.Id)
			return MResult{Kind: "DeleteSchedule", Rows: 1}
		}
		return MResult{Kind: "DeleteSchedule"}

	case t_aio.ReadTask:
		if _, ok := d.Tasks[c.ReadTask.Id]; ok {
			return MResult{Kind: "ReadTask", Rows: 1, Ids: []string{c.ReadTask.Id}}
		}
		return MResult{Kind: "ReadTask"}
	case t_aio.ReadTasks:
		q := c.ReadTasks
		mask := 0
		for _, s := range q.States {
			mask |= int(s)
		}
		var rows []*world.TaskRow
		for _, t := range d.Tasks {
			if t.State&mask != 0 && (t.ExpiresAt <= q.Time || t.Timeout <= q.Time) {
				rows = append(rows, t)
			}
		}
		sort.Slice(rows, func(i, j int) bool {
			if rows[i].RootPromiseId != rows[j].RootPromiseId {
				return rows[i].RootPromiseId < rows[j].RootPromiseId
			}
			return rows[i].SortId < rows[j].SortId
		})
		if len(rows) > q.Limit {
			rows = rows[:q.Limit]
		}
		r := MResult{Kind: "ReadTasks", Rows: int64(len(rows))}
		for _, t := range rows {
			r.Ids = append(r.Ids, t.Id)
		}
		return r
	case t_aio.ReadEnqueueableTasks:
		per := map[string][]string{}
		for id, t := range d.Tasks {
			if t.State != 1 {
				continue
			}
			blocked := false
			for _, o := range d.Tasks {
				if o.RootPromiseId == t.RootPromiseId && (o.State == 2 || o.State == 4) {
					blocked = true
				}
			}
			if !blocked {
				per[t.RootPromiseId] = append(per[t.RootPromiseId], id)
			}
		}
		roots := make([]string, 0, len(per))
		for r := range per {
			roots = append(roots, r)
		}
		sort.Strings(roots)
		if len(roots) > c.ReadEnquableTasks.Limit {
			roots = roots[:c.ReadEnquableTasks.Limit]
		}
		r := MResult{Kind: "ReadEnqueueableTasks", Rows: int64(len(roots)), PerRoot: map[string][]string{}, Ids: roots}
		for _, root := range roots {
			r.PerRoot[root] = per[root]
		}
		return r
	case t_aio.CreateTask:
		return MResult{Kind: "CreateTask", Rows: m.createTask(c.CreateTask)}
	case t_aio.CreateTasks:
		q := c.CreateTasks
		var cbs []*world.CallbackRow
		for _, cb := range d.Callbacks {
			if cb.PromiseId == q.PromiseId {
				cbs = append(cbs, cb)
			}
		}
		sort.Slice(cbs, func(i, j int) bool { return cbs[i].Id < cbs[j].Id })
		for _, cb := range cbs {
			if _, dup := d.Tasks[cb.Id]; dup {
				return MResult{Kind: "CreateTasks", Err: true} // plain INSERT ... SELECT: a duplicate id is a constraint error
			}
		}
		for _, cb := range cbs {
			d.Tasks[cb.Id] = &world.TaskRow{Id: cb.Id, SortId: m.nextT, State: 1, RootPromiseId: cb.RootPromiseId, Recv: cb.Recv, Mesg: cb.Mesg, Timeout: cb.Timeout, Counter: 1, CreatedOn: ip(q.CreatedOn)}
			m.nextT++
		}
		return MResult{Kind: "CreateTasks", Rows: int64(len(cbs))}
	case t_aio.CompleteTasks:
		n := int64(0)
		for _, t := range d.Tasks {
			if t.RootPromiseId == c.CompleteTasks.RootPromiseId && (t.State == 1 || t.State == 2 || t.State == 4) {
				t.State = 8
				t.CompletedOn = ip(c.CompleteTasks.CompletedOn)
				n++
			}
		}
		return MResult{Kind: "CompleteTasks", Rows: n}
	case t_aio.UpdateTask:
		q := c.UpdateTask
		t, ok := d.Tasks[q.Id]
		mask := 0
		for _, s := range q.CurrentStates {
			mask |= int(s)
		}
		if !ok || t.State&mask == 0 || t.Counter != q.CurrentCounter {
			return MResult{Kind: "UpdateTask"}
		}
		t.ProcessId = q.ProcessId
		if q.ProcessId != nil {
			t.ProcessId = sp(*q.ProcessId)
		}
		t.State, t.Counter, t.Attempt, t.Ttl, t.ExpiresAt = int(q.State), q.Counter, q.Attempt, q.Ttl, q.ExpiresAt
		t.CompletedOn = nil
		if q.CompletedOn != nil {
			t.CompletedOn = ip(*q.CompletedOn)
		}
		return MResult{Kind: "UpdateTask", Rows: 1}
	case t_aio.HeartbeatTasks:
		n := int64(0)
		for _, t := range d.Tasks {
			if t.State == 4 && t.ProcessId != nil && *t.ProcessId == c.HeartbeatTasks.ProcessId {
				t.ExpiresAt = c.HeartbeatTasks.Time + int64(t.Ttl)
				n++
			}
		}
		return MResult{Kind: "HeartbeatTasks", Rows: n}
	case t_aio.CreatePromiseAndTask:
		q := c.CreatePromiseAndTask
		if m.createPromise(q.PromiseCommand) == 0 {
			return MResult{Kind: "CreatePromiseAndTask"}
		}
		return MResult{Kind: "CreatePromiseAndTask", Rows: 1, Rows2: m.createTask(q.TaskCommand)}

	case t_aio.ReadLock:
		if _, ok := d.Locks[c.ReadLock.ResourceId]; ok {
			return MResult{Kind: "ReadLock", Rows: 1, Ids: []string{c.ReadLock.ResourceId}}
		}
		return MResult{Kind: "ReadLock"}
	case t_aio.AcquireLock:
		q := c.AcquireLock
		l, ok := d.Locks[q.ResourceId]
		if !ok {
			d.Locks[q.ResourceId] = &world.LockRow{ResourceId: q.ResourceId, ExecutionId: q.ExecutionId, ProcessId: q.ProcessId, Ttl: q.Ttl, ExpiresAt: q.ExpiresAt}
			return MResult{Kind: "AcquireLock", Rows: 1}
		}
		if l.ExecutionId != q.ExecutionId {
			return MResult{Kind: "AcquireLock"}
		}
		l.ProcessId, l.Ttl, l.ExpiresAt = q.ProcessId, q.Ttl, q.ExpiresAt
		return MResult{Kind: "AcquireLock", Rows: 1}
	case t_aio.ReleaseLock:
		if l, ok := d.Locks[c.ReleaseLock.ResourceId]; ok && l.ExecutionId == c.ReleaseLock.ExecutionId {
			delete(d.Locks, c.ReleaseLock.ResourceId)
			return MResult{Kind: "ReleaseLock", Rows: 1}
		}
		return MResult{Kind: "ReleaseLock"}
	case t_aio.HeartbeatLocks:
		n := int64(0)
		for _, l := range d.Locks {
			if l.ProcessId == c.HeartbeatLocks.ProcessId {
				l.ExpiresAt = c.HeartbeatLocks.Time + l.Ttl
				n++
			}
		}
		return MResult{Kind: "HeartbeatLocks", Rows: n}
	case t_aio.TimeoutLocks:
		n := int64(0)
		for id, l := range d.Locks {
			if l.ExpiresAt <= c.TimeoutLocks.Timeout {
				delete(d.Locks, id)
				n++
			}
		}
		return MResult{Kind: "TimeoutLocks", Rows: n}
	}
	panic(fmt.Sprintf("storex model: unknown command kind %v", c.Kind))
}

// serialGap is 1 when modelling Postgres' SERIAL (a conflicting insert still consumes
// a sequence value) and 0 for SQLite's AUTOINCREMENT. Sort ids are compared by ORDER,
// never by value, across the two backends.
var serialGap = 0

func (m *Model) createPromise(q *t_aio.CreatePromiseCommand) int64 {
	if _, ok := m.D.Promises[q.Id]; ok {
		m.nextP += int64(serialGap)
		return 0
	}
	m.D.Promises[q.Id] = &world.PromiseRow{Id: q.Id, SortId: m.nextP, State: 1, ParamHeaders: js(q.Param.Headers), ParamData: string(q.Param.Data), Timeout: q.Timeout,
		IkCreate: keyStr(q.IdempotencyKey, q.IdempotencyKey == nil), Tags: js(q.Tags), CreatedOn: ip(q.CreatedOn)}
	m.nextP++
	return 1
}

func (m *Model) createTask(q *t_aio.CreateTaskCommand) int64 {
	if _, ok := m.D.Tasks[q.Id]; ok {
		m.nextT += int64(serialGap)
		return 0
	}
	t := &world.TaskRow{Id: q.Id, SortId: m.nextT, State: int(q.State), RootPromiseId: q.Mesg.Root, Recv: string(q.Recv), Mesg: js(q.Mesg), Timeout: q.Timeout, Counter: 1, Ttl: q.Ttl, ExpiresAt: q.ExpiresAt, CreatedOn: ip(q.CreatedOn)}
	if q.ProcessId != nil {
		t.ProcessId = sp(*q.ProcessId)
	}
	m.D.Tasks[q.Id] = t
	m.nextT++
	return 1
}
