package storex

import (
	"encoding/json"
	"fmt"
	"sort"
	"strings"
	"time"

	"github.com/resonatehq/resonate/internal/kernel/t_aio"
	"github.com/resonatehq/resonate/internal/verif/runner"
	"github.com/resonatehq/resonate/internal/verif/world"
	"github.com/resonatehq/resonate/pkg/lock"
	"github.com/resonatehq/resonate/pkg/promise"
	"github.com/resonatehq/resonate/pkg/schedule"
	"github.com/resonatehq/resonate/pkg/task"
)

// ---- comparing a real result with the model's prediction ---------------------

func idsOfP(rs []*promise.PromiseRecord) []string {
	var o []string
	for _, r := range rs {
		o = append(o, r.Id)
	}
	return o
}

func idsOfS(rs []*schedule.ScheduleRecord) []string {
	var o []string
	for _, r := range rs {
		o = append(o, r.Id)
	}
	return o
}

func idsOfT(rs []*task.TaskRecord) []string {
	var o []string
	for _, r := range rs {
		o = append(o, r.Id)
	}
	return o
}

func pstr(p *string) string {
	if p == nil {
		return "<nil>"
	}
	return *p
}

func pint(p *int64) string {
	if p == nil {
		return "<nil>"
	}
	return fmt.Sprint(*p)
}

func kptr(k interface{ String() string }, isNil bool) string {
	if isNil {
		return "<nil>"
	}
	return k.String()
}

func normJSON(b []byte) string {
	if b == nil {
		return "<nil>"
	}
	var v any
	if json.Unmarshal(b, &v) != nil {
		return string(b)
	}
	o, _ := json.Marshal(v)
	return string(o)
}

func normJSONs(s *string) string {
	if s == nil {
		return "<nil>"
	}
	return normJSON([]byte(*s))
}

// recordVsRow: a record returned by a read must carry exactly the row's columns
func promiseRecordDiff(r *promise.PromiseRecord, row *world.PromiseRow, full bool) string {
	got := fmt.Sprintf("%s|%d|%s|%s|%s|%s|%d|%s|%s|%s|%s|%s", r.Id, r.State, normJSON(r.ParamHeaders), string(r.ParamData), normJSON(r.ValueHeaders), bstr(r.ValueData), r.Timeout,
		kptr(r.IdempotencyKeyForCreate, r.IdempotencyKeyForCreate == nil), kptr(r.IdempotencyKeyForComplete, r.IdempotencyKeyForComplete == nil), normJSON(r.Tags), pint(r.CreatedOn), pint(r.CompletedOn))
	want := fmt.Sprintf("%s|%d|%s|%s|%s|%s|%d|%s|%s|%s|%s|%s", row.Id, row.State, normJSON([]byte(row.ParamHeaders)), row.ParamData, normJSONs(row.ValueHeaders), pstr(row.ValueData), row.Timeout,
		pstr(row.IkCreate), pstr(row.IkComplete), normJSON([]byte(row.Tags)), pint(row.CreatedOn), pint(row.CompletedOn))
	if full {
		got += fmt.Sprint("|", r.SortId)
		want += fmt.Sprint("|", row.SortId)
	}
	if got != want {
		return fmt.Sprintf("record %s, row %s", got, want)
	}
	return ""
}

func bstr(b []byte) string {
	if b == nil {
		return "<nil>"
	}
	return string(b)
}

func taskRecordDiff(r *task.TaskRecord, row *world.TaskRow) string {
	got := fmt.Sprintf("%s|%s|%d|%s|%s|%s|%d|%d|%d|%d|%d|%s|%s", r.Id, pstr(r.ProcessId), r.State, r.RootPromiseId, string(r.Recv), string(r.Mesg), r.Timeout, r.Counter, r.Attempt, r.Ttl, r.ExpiresAt, pint(r.CreatedOn), pint(r.CompletedOn))
	want := fmt.Sprintf("%s|%s|%d|%s|%s|%s|%d|%d|%d|%d|%d|%s|%s", row.Id, pstr(row.ProcessId), row.State, row.RootPromiseId, row.Recv, row.Mesg, row.Timeout, row.Counter, row.Attempt, row.Ttl, row.ExpiresAt, pint(row.CreatedOn), pint(row.CompletedOn))
	if got != want {
		return fmt.Sprintf("record %s, row %s", got, want)
	}
	return ""
}

func scheduleRecordDiff(r *schedule.ScheduleRecord, row *world.ScheduleRow, kind string) string {
	var got, want string
	switch kind {
	case "ReadSchedule":
		got = fmt.Sprintf("%s|%s|%s|%s|%s|%d|%s|%s|%s|%s|%d|%s|%d", r.Id, r.Description, r.Cron, normJSON(r.Tags), r.PromiseId, r.PromiseTimeout, normJSON(r.PromiseParamHeaders), string(r.PromiseParamData), normJSON(r.PromiseTags), pint(r.LastRunTime), r.NextRunTime, kptr(r.IdempotencyKey, r.IdempotencyKey == nil), r.CreatedOn)
		want = fmt.Sprintf("%s|%s|%s|%s|%s|%d|%s|%s|%s|%s|%d|%s|%d", row.Id, row.Description, row.Cron, normJSON([]byte(row.Tags)), row.PromiseId, row.PromiseTimeout, normJSON([]byte(row.ParamHeaders)), row.ParamData, normJSON([]byte(row.PromiseTags)), pint(row.LastRunTime), row.NextRunTime, pstr(row.Ik), row.CreatedOn)
	case "ReadSchedules":
		got = fmt.Sprintf("%s|%s|%s|%d|%s|%s|%s|%s|%d", r.Id, r.Cron, r.PromiseId, r.PromiseTimeout, normJSON(r.PromiseParamHeaders), string(r.PromiseParamData), normJSON(r.PromiseTags), pint(r.LastRunTime), r.NextRunTime)
		want = fmt.Sprintf("%s|%s|%s|%d|%s|%s|%s|%s|%d", row.Id, row.Cron, row.PromiseId, row.PromiseTimeout, normJSON([]byte(row.ParamHeaders)), row.ParamData, normJSON([]byte(row.PromiseTags)), pint(row.LastRunTime), row.NextRunTime)
	default:
		got = fmt.Sprintf("%s|%s|%s|%s|%d|%s|%d", r.Id, r.Cron, normJSON(r.Tags), pint(r.LastRunTime), r.NextRunTime, kptr(r.IdempotencyKey, r.IdempotencyKey == nil), r.CreatedOn)
		want = fmt.Sprintf("%s|%s|%s|%s|%d|%s|%d", row.Id, row.Cron, normJSON([]byte(row.Tags)), pint(row.LastRunTime), row.NextRunTime, pstr(row.Ik), row.CreatedOn)
	}
	if got != want {
		return fmt.Sprintf("record %s, row %s", got, want)
	}
	return ""
}

func lockRecordDiff(r *lock.LockRecord, row *world.LockRow) string {
	got := fmt.Sprintf("%s|%s|%s|%d|%d", r.ResourceId, r.ExecutionId, r.ProcessId, r.Ttl, r.ExpiresAt)
	want := fmt.Sprintf("%s|%s|%s|%d|%d", row.ResourceId, row.ExecutionId, row.ProcessId, row.Ttl, row.ExpiresAt)
	if got != want {
		return fmt.Sprintf("record %s, row %s", got, want)
	}
	return ""
}

// CompareResult returns "" if the real result agrees with the model's prediction.
// pre is the state the command read from (the model BEFORE the command).
func CompareResult(r *t_aio.Result, m MResult, pre *world.Dump, realPre *world.Dump, sortIdsComparable bool) string {
	var rows, rows2, last int64
	var ids []string
	var diffs []string
	switch r.Kind {
	case t_aio.ReadPromise, t_aio.ReadPromises, t_aio.SearchPromises:
		q := r.ReadPromise
		if r.Kind == t_aio.ReadPromises {
			q = r.ReadPromises
		} else if r.Kind == t_aio.SearchPromises {
			q = r.SearchPromises
		}
		rows, last, ids = q.RowsReturned, q.LastSortId, idsOfP(q.Records)
		for _, rec := range q.Records {
			if row := pre.Promises[rec.Id]; row == nil {
				diffs = append(diffs, "returned unknown promise "+rec.Id)
			} else if d := promiseRecordDiff(rec, row, false); d != "" {
				diffs = append(diffs, d)
			}
		}
		// sort ids: each record's sort id and the reported last sort id are those of the REAL rows
		m.LastSort = 0
		if realPre != nil && sortIdsComparable {
			for _, rec := range q.Records {
				if rr := realPre.Promises[rec.Id]; rr != nil {
					if r.Kind != t_aio.ReadPromise && rec.SortId != rr.SortId {
						diffs = append(diffs, fmt.Sprintf("record %s carries sort id %d, the row has %d", rec.Id, rec.SortId, rr.SortId))
					}
					m.LastSort = rr.SortId
				}
			}
		}
	case t_aio.CreatePromise:
		rows = r.CreatePromise.RowsAffected
	case t_aio.UpdatePromise:
		rows = r.UpdatePromise.RowsAffected
	case t_aio.CreateCallback:
		rows = r.CreateCallback.RowsAffected
	case t_aio.DeleteCallbacks:
		rows = r.DeleteCallbacks.RowsAffected
	case t_aio.ReadSchedule, t_aio.ReadSchedules, t_aio.SearchSchedules:
		q, kind := r.ReadSchedule, "ReadSchedule"
		if r.Kind == t_aio.ReadSchedules {
			q, kind = r.ReadSchedules, "ReadSchedules"
		} else if r.Kind == t_aio.SearchSchedules {
			q, kind = r.SearchSchedules, "SearchSchedules"
		}
		rows, last, ids = q.RowsReturned, q.LastSortId, idsOfS(q.Records)
		for _, rec := range q.Records {
			if row := pre.Schedules[rec.Id]; row == nil {
				diffs = append(diffs, "returned unknown schedule "+rec.Id)
			} else if d := scheduleRecordDiff(rec, row, kind); d != "" {
				diffs = append(diffs, d)
			}
		}
		m.LastSort = 0
		if realPre != nil && sortIdsComparable && kind == "SearchSchedules" {
			for _, rec := range q.Records {
				if rr := realPre.Schedules[rec.Id]; rr != nil {
					if rec.SortId != rr.SortId {
						diffs = append(diffs, fmt.Sprintf("record %s carries sort id %d, the row has %d", rec.Id, rec.SortId, rr.SortId))
					}
					m.LastSort = rr.SortId
				}
			}
		}
	case t_aio.CreateSchedule:
		rows = r.CreateSchedule.RowsAffected
	case t_aio.UpdateSchedule:
		rows = r.UpdateSchedule.RowsAffected
	case t_aio.DeleteSchedule:
		rows = r.DeleteSchedule.RowsAffected
	case t_aio.ReadTask, t_aio.ReadTasks, t_aio.ReadEnqueueableTasks:
		q := r.ReadTask
		if r.Kind == t_aio.ReadTasks {
			q = r.ReadTasks
		} else if r.Kind == t_aio.ReadEnqueueableTasks {
			q = r.ReadEnqueueableTasks
		}
		rows, ids = q.RowsReturned, idsOfT(q.Records)
		for _, rec := range q.Records {
			if row := pre.Tasks[rec.Id]; row == nil {
				diffs = append(diffs, "returned unknown task "+rec.Id)
			} else if d := taskRecordDiff(rec, row); d != "" {
				diffs = append(diffs, d)
			}
		}
	case t_aio.CreateTask:
		rows = r.CreateTask.RowsAffected
	case t_aio.CreateTasks:
		rows = r.CreateTasks.RowsAffected
	case t_aio.CompleteTasks:
		rows = r.CompleteTasks.RowsAffected
	case t_aio.UpdateTask:
		rows = r.UpdateTask.RowsAffected
	case t_aio.HeartbeatTasks:
		rows = r.HeartbeatTasks.RowsAffected
	case t_aio.CreatePromiseAndTask:
		rows, rows2 = r.CreatePromiseAndTask.PromiseRowsAffected, r.CreatePromiseAndTask.TaskRowsAffected
	case t_aio.ReadLock:
		rows = r.ReadLock.RowsReturned
		for _, rec := range r.ReadLock.Records {
			ids = append(ids, rec.ResourceId)
			if row := pre.Locks[rec.ResourceId]; row == nil {
				diffs = append(diffs, "returned unknown lock "+rec.ResourceId)
			} else if d := lockRecordDiff(rec, row); d != "" {
				diffs = append(diffs, d)
			}
		}
	case t_aio.AcquireLock:
		rows = r.AcquireLock.RowsAffected
	case t_aio.ReleaseLock:
		rows = r.ReleaseLock.RowsAffected
	case t_aio.HeartbeatLocks:
		rows = r.HeartbeatLocks.RowsAffected
	case t_aio.TimeoutLocks:
		rows = r.TimeoutLocks.RowsAffected
	}
	if r.Kind.String() != m.Kind {
		diffs = append(diffs, fmt.Sprintf("result kind %s for command %s", r.Kind, m.Kind))
	}
	if rows != m.Rows || rows2 != m.Rows2 {
		diffs = append(diffs, fmt.Sprintf("reports %d/%d rows, the model says %d/%d", rows, rows2, m.Rows, m.Rows2))
	}
	switch {
	case m.AnyOf != nil:
		seen := map[string]bool{}
		for _, id := range ids {
			ok := false
			for _, a := range m.AnyOf {
				if a == id {
					ok = true
				}
			}
			if !ok || seen[id] {
				diffs = append(diffs, fmt.Sprintf("returned %v, admissible %v", ids, m.AnyOf))
			}
			seen[id] = true
		}
	case m.PerRoot != nil:
		if len(ids) != len(m.Ids) {
			diffs = append(diffs, fmt.Sprintf("returned %v for roots %v", ids, m.Ids))
		} else {
			for i, id := range ids {
				ok := false
				for _, a := range m.PerRoot[m.Ids[i]] {
					if a == id {
						ok = true
					}
				}
				if !ok {
					diffs = append(diffs, fmt.Sprintf("returned %v, admissible per root %v in root order %v", ids, m.PerRoot, m.Ids))
				}
			}
		}
	default:
		if strings.Join(ids, ",") != strings.Join(m.Ids, ",") {
			diffs = append(diffs, fmt.Sprintf("returned %v, the model says %v", ids, m.Ids))
		}
	}
	if realPre != nil && sortIdsComparable && (r.Kind == t_aio.SearchPromises || r.Kind == t_aio.SearchSchedules || r.Kind == t_aio.ReadPromises) && last != m.LastSort {
		diffs = append(diffs, fmt.Sprintf("last sort id %d, the model says %d", last, m.LastSort))
	}
	return strings.Join(diffs, "; ")
}

// NormText renders a dump with sort ids replaced by their rank inside the table: the
// VALUE of a sort id (gaps left by conflicting inserts differ between one transaction
// and a batch, and between SQLite and Postgres) is not observable, its ORDER is.
func NormText(d *world.Dump) string {
	c := &world.Dump{Promises: map[string]*world.PromiseRow{}, Callbacks: d.Callbacks, Schedules: map[string]*world.ScheduleRow{}, Locks: d.Locks, Tasks: map[string]*world.TaskRow{}}
	rank := func(ids []int64) map[int64]int64 {
		sort.Slice(ids, func(i, j int) bool { return ids[i] < ids[j] })
		m := map[int64]int64{}
		for i, v := range ids {
			m[v] = int64(i + 1)
		}
		return m
	}
	var a []int64
	for _, p := range d.Promises {
		a = append(a, p.SortId)
	}
	r := rank(a)
	for k, p := range d.Promises {
		x := *p
		x.SortId = r[p.SortId]
		c.Promises[k] = &x
	}
	a = nil
	for _, p := range d.Schedules {
		a = append(a, p.SortId)
	}
	r = rank(a)
	for k, p := range d.Schedules {
		x := *p
		x.SortId = r[p.SortId]
		c.Schedules[k] = &x
	}
	a = nil
	for _, p := range d.Tasks {
		a = append(a, p.SortId)
	}
	r = rank(a)
	for k, p := range d.Tasks {
		x := *p
		x.SortId = r[p.SortId]
		c.Tasks[k] = &x
	}
	return c.Text()
}

func (m *Model) NormText() string { return NormText(m.D) }

// ---- the search ----------------------------------------------------------------

type C16Job struct {
	Populated int // 0 = start from the empty database, 1 / 2 = from populated state A / B
	First int // index of the first transaction of every path this job explores
	Depth int
	Tier  string
	Pairs bool
}

func (j *C16Job) Name() string {
	if j.Populated > 0 {
		return fmt.Sprintf("C16/populated-%d/first=%03d", j.Populated, j.First)
	}
	return fmt.Sprintf("C16/first=%03d", j.First)
}

// populatedPrefix: a non-initial state with two rows in most tables (two promises of
// which one is completed, registrations, two schedules, tasks in several states, locks)
func populatedPrefix(alpha []Tx, which int) []int {
	// A: promise-centric (pending + completed promise, registrations, schedules, locks)
	want := []string{"CreatePromise(p1,to=5,ik=a)", "CreatePromise(p2,to=10,ik=)", "CreateCallback(c1p1->p1)", "CreateCallback(c2p2->p2)", "Complete4(p1)", "CreateSchedule(s1,next=5)", "CreateSchedule(s2,next=10)",
		"CreateTask(t1,state=1)", "UpdateTask(c1p1,claim(c=1))", "AcquireLock(l1,e1,w1)", "AcquireLock(l2,e2,w1)"}
	if which == 2 {
		// B: task-centric (a finished task that still carries its process id, a claimed task,
		// an init task whose sibling of the same root is claimed, an init task on another root)
		want = []string{"CreatePromise(p1,to=5,ik=a)", "CreateCallback(c1p1->p1)", "CreateCallback(c2p1->p1)", "CreateTask(t1,state=4)", "Complete4(p1)", "UpdateTask(c1p1,claim(c=1))",
			"CreatePromise(p2,to=10,ik=)", "CreateCallback(c1p2->p2)", "Complete4(p2)", "AcquireLock(l1,e1,w2)"}
	}
	var out []int
	for _, w := range want {
		found := false
		for i, t := range alpha {
			if t.Label == w {
				out = append(out, i)
				found = true
			}
		}
		if !found {
			panic("storex: populated prefix: no transaction " + w)
		}
	}
	return out
}

type node struct {
	path  []int
	model *Model
}

func applyTx(m *Model, tx Tx) ([]MResult, bool) {
	var out []MResult
	for _, c := range tx.Cmds() {
		r := m.Apply(c)
		out = append(out, r)
		if r.Err {
			return out, true
		}
	}
	return out, false
}

func stateKey(m *Model) string { return m.Text() + fmt.Sprint(m.nextP, m.nextS, m.nextT) }

func (j *C16Job) Run(deadline time.Time) *runner.JobResult {
	res := &runner.JobResult{Name: j.Name(), Counters: map[string]int64{}}
	alpha := Alphabet(j.Tier)
	if j.First >= len(alpha) {
		return res
	}
	be := NewSqliteBackend(":memory:")
	defer be.Close()
	viol := func(sig, format string, a ...any) {
		for _, v := range res.Violations {
			if v.Sig == sig {
				return
			}
		}
		res.Violations = append(res.Violations, runner.Violation{Sig: sig, Msg: fmt.Sprintf(format, a...), Job: j.Name(), Replay: map[string]any{"job": j.Name(), "sig": sig}})
	}
	labelsOf := func(path []int) []string {
		var l []string
		for _, i := range path {
			l = append(l, alpha[i].Label)
		}
		return l
	}
	replay := func(path []int) {
		be.Reset()
		for _, i := range path {
			be.Exec([][]*t_aio.Command{alpha[i].Cmds()})
		}
	}
	// check one transition from node n by transaction t; returns the successor model (nil on failed tx)
	step := func(n *node, ti int) *Model {
		tx := alpha[ti]
		pre := n.model
		nm := pre.Clone()
		// the model sees the commands one after the other; reads inside the transaction read the intermediate state
		var want []MResult
		var pres []*world.Dump
		failed := false
		for _, c := range tx.Cmds() {
			snap := nm.Clone()
			pres = append(pres, snap.D)
			r := nm.Apply(c)
			want = append(want, r)
			if r.Err {
				failed = true
				break
			}
		}
		replay(n.path)
		realPre := be.Dump()
		got, errs := be.Exec([][]*t_aio.Command{tx.Cmds()})
		res.Transitions++
		afterD := be.Dump()
		after := NormText(afterD)
		where := fmt.Sprintf("after %v, transaction %s", labelsOf(n.path), tx.Label)
		if failed {
			if errs[0] == nil {
				viol("C16:constraint-error-expected:"+tx.Label, "%s: the model predicts a constraint error, the store reports success", where)
			}
			if after != pre.NormText() {
				viol("C16:failed-transaction-changed-db:"+tx.Label, "%s failed but changed the database:\n%s\n--- expected unchanged:\n%s", where, after, pre.NormText())
			}
			return nil
		}
		if errs[0] != nil {
			viol("C16:unexpected-error:"+kindsOf(tx), "%s: store error %v", where, errs[0])
			return nil
		}
		if len(got[0]) != len(want) {
			viol("C16:result-count:"+kindsOf(tx), "%s: %d results for %d commands", where, len(got[0]), len(want))
			return nil
		}
		for ci, r := range got[0] {
			if d := CompareResult(r, want[ci], pres[ci], realPre, len(got[0]) == 1); d != "" {
				viol("C16:result:"+want[ci].Kind, "%s, command %d (%s): %s", where, ci, want[ci].Kind, d)
			}
		}
		if after != nm.NormText() {
			viol("C16:effect:"+kindsOf(tx), "%s: the database differs from the model\n--- store:\n%s--- model:\n%s", where, after, nm.NormText())
			return nil
		}
		return nm
	}

	root := &node{model: NewModel()}
	if j.Populated > 0 {
		for _, ti := range populatedPrefix(alpha, j.Populated) {
			nm := step(root, ti)
			if nm == nil {
				if len(res.Violations) == 0 {
					res.HarnessErr = "the populated prefix does not apply: " + alpha[ti].Label
				}
				return res
			}
			root = &node{path: append(append([]int{}, root.path...), ti), model: nm}
		}
	}
	m1 := step(root, j.First)
	seen := map[string]bool{}
	var frontier []*node
	if m1 != nil {
		frontier = []*node{{path: append(append([]int{}, root.path...), j.First), model: m1}}
		seen[stateKey(m1)] = true
	}
	var all []*node
	all = append(all, frontier...)
	for depth := 1; depth < j.Depth && len(frontier) > 0; depth++ {
		var next []*node
		for _, n := range frontier {
			if !deadline.IsZero() && time.Now().After(deadline) {
				res.Capped = true
				break
			}
			for ti := range alpha {
				runner.Trace(fmt.Sprintf("JOB %s path %v + %d", j.Name(), n.path, ti))
				nm := step(n, ti)
				if nm == nil {
					continue
				}
				k := stateKey(nm)
				if !seen[k] {
					seen[k] = true
					nn := &node{path: append(append([]int{}, n.path...), ti), model: nm}
					next = append(next, nn)
					all = append(all, nn)
				}
			}
		}
		frontier = next
	}
	res.States = int64(len(seen))

	// batches: two transactions in ONE SQL transaction == one after the other; an error
	// at any command position undoes everything and fails every submission
	if j.Pairs {
		var muts []int
		for i, t := range alpha {
			if t.Mutating {
				muts = append(muts, i)
			}
		}
		errTx := func() []*t_aio.Command {
			// a promise id that a trigger installed by the harness refuses
			return []*t_aio.Command{{Kind: t_aio.CreatePromise, CreatePromise: &t_aio.CreatePromiseCommand{Id: "ERR", Param: val("e"), Timeout: 1, Tags: map[string]string{}, CreatedOn: 1}}}
		}
		if be.Name == "sqlite" {
			if err := be.InstallCommitFaults(); err != nil {
				res.HarnessErr = err.Error()
				return res
			}
		}
		if _, err := be.DB.Exec(`CREATE TRIGGER IF NOT EXISTS verif_err BEFORE INSERT ON promises WHEN NEW.id = 'ERR' BEGIN SELECT RAISE(ABORT, 'verif injected error'); END`); err != nil {
			res.HarnessErr = err.Error()
			return res
		}
		limit := 1
		if j.Tier == "thorough" {
			limit = 40
		}
		for ni, n := range all {
			if ni >= limit || (!deadline.IsZero() && time.Now().After(deadline)) {
				break
			}
			for _, a := range muts {
				for _, b := range muts {
					// sequential reference on the model
					ma := n.model.Clone()
					_, fa := applyTx(ma, alpha[a])
					mb := ma.Clone()
					if fa {
						continue
					}
					_, fb := applyTx(mb, alpha[b])
					if fb {
						continue
					}
					replay(n.path)
					_, errs := be.Exec([][]*t_aio.Command{alpha[a].Cmds(), alpha[b].Cmds()})
					res.Transitions++
					res.Counters["batches"]++
					if errs[0] != nil || errs[1] != nil {
						viol("C16:batch-error", "after %v the batch [%s, %s] failed: %v %v", labelsOf(n.path), alpha[a].Label, alpha[b].Label, errs[0], errs[1])
						continue
					}
					if got := NormText(be.Dump()); got != mb.NormText() {
						viol("C16:batch-differs-from-sequence:"+kindsOf(alpha[a])+"+"+kindsOf(alpha[b]), "after %v the batch [%s, %s] leaves\n%s--- executing them one after the other leaves\n%s", labelsOf(n.path), alpha[a].Label, alpha[b].Label, got, mb.NormText())
					}
				}
				// error injected before, between and after
				for pos := 0; pos < 3; pos++ {
					batch := [][]*t_aio.Command{alpha[a].Cmds(), alpha[j.First].Cmds()}
					batch = append(batch[:pos], append([][]*t_aio.Command{errTx()}, batch[pos:]...)...)
					replay(n.path)
					_, errs := be.Exec(batch)
					res.Transitions++
					res.Counters["injected_errors"]++
					for i, e := range errs {
						if e == nil {
							viol("C16:batch-error-not-delivered", "error injected at position %d of a batch of %d: submission %d got no error", pos, len(batch), i)
						}
					}
					if got := NormText(be.Dump()); got != n.model.NormText() {
						viol("C16:failed-batch-left-effects", "error injected at position %d of batch [%s, %s] after %v: the database changed\n%s--- expected\n%s", pos, alpha[a].Label, alpha[j.First].Label, labelsOf(n.path), got, n.model.NormText())
					}
				}
				// every command succeeds, COMMIT itself fails
				if be.Name == "sqlite" {
					ma := n.model.Clone()
					_, fa := applyTx(ma, alpha[a])
					_, fb := applyTx(ma, alpha[j.First])
					if !fa && !fb {
						replay(n.path)
						be.Arm(1)
						_, errs := be.Exec([][]*t_aio.Command{alpha[a].Cmds(), alpha[j.First].Cmds()})
						be.Arm(0)
						res.Transitions++
						failed := 0
						for _, e := range errs {
							if e != nil {
								failed++
							}
						}
						got := NormText(be.Dump())
						switch {
						case got == n.model.NormText() && failed == len(errs):
							res.Counters["failed_commits"]++ // all-or-none: none, and everybody was told
						case got == n.model.NormText() && failed == 0 && ma.NormText() == n.model.NormText():
							res.Counters["commit_fault_not_triggered(no row changed)"]++
						case got == n.model.NormText():
							viol("C16:failed-commit-reported-as-success", "after %v the COMMIT of batch [%s, %s] failed and nothing was stored, but %d of %d submissions were told they succeeded", labelsOf(n.path), alpha[a].Label, alpha[j.First].Label, len(errs)-failed, len(errs))
						default:
							viol("C16:failed-commit-left-effects", "after %v the COMMIT of batch [%s, %s] was made to fail (%d of %d submissions got an error) but the database changed\n%s--- before\n%s", labelsOf(n.path), alpha[a].Label, alpha[j.First].Label, failed, len(errs), got, n.model.NormText())
						}
					}
				}
			}
		}
	}
	res.Executions = res.Transitions
	res.Outcomes = nil
	for k := range seen {
		res.Outcomes = append(res.Outcomes, fmt.Sprint(len(k), ":", hashStr(k)))
	}
	sort.Strings(res.Outcomes)
	if len(all) > 0 {
		res.Samples = []any{map[string]any{"path": labelsOf(all[len(all)-1].path)}}
	} else {
		res.Samples = []any{map[string]any{"path": []string{alpha[j.First].Label}}}
	}
	return res
}

func hashStr(s string) string {
	h := uint64(1469598103934665603)
	for i := 0; i < len(s); i++ {
		h ^= uint64(s[i])
		h *= 1099511628211
	}
	return fmt.Sprintf("%x", h)
}

func kindsOf(tx Tx) string {
	var ks []string
	for _, c := range tx.Cmds() {
		ks = append(ks, c.Kind.String())
	}
	return strings.Join(ks, ",")
}
