package storex

import (
	"database/sql"
	"fmt"
	"io"
	"log/slog"
	"os"
	"time"

	"github.com/prometheus/client_golang/prometheus"
	"github.com/resonatehq/resonate/internal/app/subsystems/aio/store/postgres"
	"github.com/resonatehq/resonate/internal/app/subsystems/aio/store/sqlite"
	"github.com/resonatehq/resonate/internal/kernel/bus"
	"github.com/resonatehq/resonate/internal/kernel/t_aio"
	"github.com/resonatehq/resonate/internal/metrics"
	"github.com/resonatehq/resonate/internal/verif/world"
)

func init() {
	slog.SetDefault(slog.New(slog.NewTextHandler(io.Discard, &slog.HandlerOptions{Level: slog.Level(100)})))
}

type processor interface {
	Process(sqes []*bus.SQE[t_aio.Submission, t_aio.Completion]) []*bus.CQE[t_aio.Submission, t_aio.Completion]
}

// Backend is one real store implementation on its own database.
type Backend struct {
	Name  string
	store processor
	DB    *sql.DB
	stop  func()
	path  string
}

func NewSqliteBackend(path string) *Backend {
	m := metrics.New(prometheus.NewRegistry())
	st, err := sqlite.New(nil, m, &sqlite.Config{Size: 10, BatchSize: 10, Path: path, TxTimeout: time.Hour})
	if err != nil {
		panic(err)
	}
	db := st.VerifDB()
	db.SetMaxOpenConns(1)
	if err := st.Start(nil); err != nil {
		panic(err)
	}
	return &Backend{Name: "sqlite", store: st, DB: db, path: path, stop: func() {
		_ = st.Stop()
		if path != ":memory:" {
			_ = os.Remove(path)
			_ = os.Remove(path + "-journal")
		}
	}}
}

func (b *Backend) Close() { b.stop() }

// Reset empties all tables and the AUTOINCREMENT counters.
func (b *Backend) Reset() {
	for _, q := range []string{"DELETE FROM promises", "DELETE FROM callbacks", "DELETE FROM schedules", "DELETE FROM locks", "DELETE FROM tasks", "DELETE FROM sqlite_sequence"} {
		if _, err := b.DB.Exec(q); err != nil {
			panic(fmt.Sprintf("storex reset (%s): %v", q, err))
		}
	}
}

func (b *Backend) Dump() *world.Dump {
	d, err := world.DumpDB(b.DB)
	if err != nil {
		panic(fmt.Sprintf("storex dump: %v", err))
	}
	return d
}

// Exec runs a batch (one SQL transaction) of store transactions through the real
// store.Process. It returns per transaction either its results or the error.
func (b *Backend) Exec(batch [][]*t_aio.Command) ([][]*t_aio.Result, []error) {
	sqes := make([]*bus.SQE[t_aio.Submission, t_aio.Completion], len(batch))
	for i, cmds := range batch {
		sqes[i] = &bus.SQE[t_aio.Submission, t_aio.Completion]{Id: fmt.Sprint("tx", i), Submission: &t_aio.Submission{Kind: t_aio.Store, Tags: map[string]string{"id": fmt.Sprint("tx", i)},
			Store: &t_aio.StoreSubmission{Transaction: &t_aio.Transaction{Commands: cmds}}}, Callback: func(*t_aio.Completion, error) {}}
	}
	cqes := b.store.Process(sqes)
	if len(cqes) != len(sqes) {
		panic("storex: Process returned a different number of completions")
	}
	res := make([][]*t_aio.Result, len(batch))
	errs := make([]error, len(batch))
	for i, c := range cqes {
		if c.Error != nil {
			errs[i] = c.Error
		} else {
			res[i] = c.Completion.Store.Results
		}
	}
	return res, errs
}

// NewPostgresBackend runs the real PostgresStore on the dialect shim.
func NewPostgresBackend() *Backend {
	m := metrics.New(prometheus.NewRegistry())
	db := openShim()
	st := postgres.VerifNew(db, m, &postgres.Config{Size: 10, BatchSize: 10, Workers: 1, TxTimeout: time.Hour})
	if err := st.VerifCreateTables(); err != nil {
		panic(fmt.Sprintf("pgshim: schema: %v", err))
	}
	return &Backend{Name: "postgres(pgshim)", store: st, DB: db, path: ":memory:", stop: func() { _ = db.Close() }}
}

// InstallCommitFaults: while armed, every row change also inserts a row whose
// DEFERRED foreign key cannot be satisfied: all statements of the transaction succeed
// and report their rows, COMMIT itself fails and SQLite rolls back (same device as
// world.installCommitFaults of engine A).
func (b *Backend) InstallCommitFaults() error {
	stmts := []string{
		`PRAGMA foreign_keys = ON`,
		`CREATE TABLE IF NOT EXISTS verif_arm (armed INTEGER)`,
		`INSERT INTO verif_arm SELECT 0 WHERE NOT EXISTS (SELECT 1 FROM verif_arm)`,
		`CREATE TABLE IF NOT EXISTS verif_fk_parent (id TEXT PRIMARY KEY)`,
		`CREATE TABLE IF NOT EXISTS verif_fk (x TEXT REFERENCES verif_fk_parent(id) DEFERRABLE INITIALLY DEFERRED)`,
	}
	for _, t := range []string{"promises", "callbacks", "schedules", "locks", "tasks"} {
		for _, op := range []string{"INSERT", "UPDATE", "DELETE"} {
			stmts = append(stmts, fmt.Sprintf(`CREATE TRIGGER IF NOT EXISTS verif_cf_%s_%s AFTER %s ON %s WHEN (SELECT armed FROM verif_arm) = 1 BEGIN INSERT INTO verif_fk(x) VALUES ('missing'); END`, t, op, op, t))
		}
	}
	for _, q := range stmts {
		if _, err := b.DB.Exec(q); err != nil {
			return fmt.Errorf("commit-fault machinery: %v (%s)", err, q)
		}
	}
	return nil
}

func (b *Backend) Arm(on int) {
	if _, err := b.DB.Exec(`UPDATE verif_arm SET armed = ?`, on); err != nil {
		panic(fmt.Sprintf("storex arm: %v", err))
	}
}
