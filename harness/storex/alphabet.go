package storex

import (
	"fmt"

	"github.com/resonatehq/resonate/internal/kernel/t_aio"
	"github.com/resonatehq/resonate/pkg/idempotency"
	"github.com/resonatehq/resonate/pkg/message"
	"github.com/resonatehq/resonate/pkg/promise"
	"github.com/resonatehq/resonate/pkg/task"
)

// Tx is one store transaction of the alphabet.
type Tx struct {
	Label    string
	Cmds     func() []*t_aio.Command // fresh commands (the store does not mutate them, but be safe)
	Mutating bool
}

func k(s string) *idempotency.Key {
	if s == "" {
		return nil
	}
	v := idempotency.Key(s)
	return &v
}

func one(label string, mut bool, f func() *t_aio.Command) Tx {
	return Tx{Label: label, Mutating: mut, Cmds: func() []*t_aio.Command { return []*t_aio.Command{f()} }}
}

func i64p(v int64) *int64 { return &v }
func strp(s string) *string { return &s }

func val(s string) promise.Value {
	return promise.Value{Headers: map[string]string{"h": s}, Data: []byte(s)}
}

// Alphabet: all 27 command kinds with arguments from tiny domains, plus the
// multi-command transactions the coroutines really issue.
func Alphabet(tier string) []Tx {
	var a []Tx
	pids := []string{"p1", "p2"}
	for _, p := range pids {
		p := p
		a = append(a, one("ReadPromise("+p+")", false, func() *t_aio.Command {
			return &t_aio.Command{Kind: t_aio.ReadPromise, ReadPromise: &t_aio.ReadPromiseCommand{Id: p}}
		}))
		for _, to := range []int64{5, 10} {
			for _, ik := range []string{"", "a"} {
				to, ik := to, ik
				tags := map[string]string{}
				if to == 10 {
					tags = map[string]string{"x": "1"}
				}
				a = append(a, one(fmt.Sprintf("CreatePromise(%s,to=%d,ik=%s)", p, to, ik), true, func() *t_aio.Command {
					return &t_aio.Command{Kind: t_aio.CreatePromise, CreatePromise: &t_aio.CreatePromiseCommand{Id: p, Param: val("d"), Timeout: to, IdempotencyKey: k(ik), Tags: tags, CreatedOn: 1}}
				}))
			}
		}
		for _, st := range []promise.State{promise.Resolved, promise.Rejected, promise.Canceled, promise.Timedout} {
			st := st
			a = append(a, one(fmt.Sprintf("UpdatePromise(%s,%d)", p, st), true, func() *t_aio.Command {
				return &t_aio.Command{Kind: t_aio.UpdatePromise, UpdatePromise: &t_aio.UpdatePromiseCommand{Id: p, State: st, Value: val(fmt.Sprint("v", int(st))), IdempotencyKey: k("u"), CompletedOn: 7}}
			}))
		}
		for _, cb := range []string{"c1", "c2"} {
			cb := cb
			a = append(a, one(fmt.Sprintf("CreateCallback(%s->%s)", cb+p, p), true, func() *t_aio.Command {
				return &t_aio.Command{Kind: t_aio.CreateCallback, CreateCallback: &t_aio.CreateCallbackCommand{Id: cb + p, PromiseId: p, Recv: []byte(`"poll://g/` + cb + `"`), Mesg: &message.Mesg{Type: message.Resume, Root: "r" + cb, Leaf: p}, Timeout: 50, CreatedOn: 2}}
			}))
		}
		a = append(a, one("DeleteCallbacks("+p+")", true, func() *t_aio.Command {
			return &t_aio.Command{Kind: t_aio.DeleteCallbacks, DeleteCallbacks: &t_aio.DeleteCallbacksCommand{PromiseId: p}}
		}))
		a = append(a, one("CreateTasks("+p+")", true, func() *t_aio.Command {
			return &t_aio.Command{Kind: t_aio.CreateTasks, CreateTasks: &t_aio.CreateTasksCommand{PromiseId: p, CreatedOn: 3}}
		}))
		a = append(a, one("CompleteTasks(root="+p+")", true, func() *t_aio.Command {
			return &t_aio.Command{Kind: t_aio.CompleteTasks, CompleteTasks: &t_aio.CompleteTasksCommand{RootPromiseId: p, CompletedOn: 8}}
		}))
		// the completion quadruple the coroutines issue
		a = append(a, Tx{Label: "Complete4(" + p + ")", Mutating: true, Cmds: func() []*t_aio.Command {
			return []*t_aio.Command{
				{Kind: t_aio.UpdatePromise, UpdatePromise: &t_aio.UpdatePromiseCommand{Id: p, State: promise.Resolved, Value: val("q"), CompletedOn: 9}},
				{Kind: t_aio.CompleteTasks, CompleteTasks: &t_aio.CompleteTasksCommand{RootPromiseId: p, CompletedOn: 9}},
				{Kind: t_aio.CreateTasks, CreateTasks: &t_aio.CreateTasksCommand{PromiseId: p, CreatedOn: 9}},
				{Kind: t_aio.DeleteCallbacks, DeleteCallbacks: &t_aio.DeleteCallbacksCommand{PromiseId: p}},
			}
		}})
		a = append(a, one("CreatePromiseAndTask("+p+")", true, func() *t_aio.Command {
			return &t_aio.Command{Kind: t_aio.CreatePromiseAndTask, CreatePromiseAndTask: &t_aio.CreatePromiseAndTaskCommand{
				PromiseCommand: &t_aio.CreatePromiseCommand{Id: p, Param: val("pt"), Timeout: 10, Tags: map[string]string{"resonate:invoke": "x"}, CreatedOn: 1},
				TaskCommand:    &t_aio.CreateTaskCommand{Id: "__invoke:" + p, Recv: []byte(`"x"`), Mesg: &message.Mesg{Type: message.Invoke, Root: p, Leaf: p}, Timeout: 10, State: task.Init, CreatedOn: 1}}}
		}))
		// the same with a task id that a separately created task may already own
		a = append(a, one("CreatePromiseAndTask("+p+",task=t1)", true, func() *t_aio.Command {
			return &t_aio.Command{Kind: t_aio.CreatePromiseAndTask, CreatePromiseAndTask: &t_aio.CreatePromiseAndTaskCommand{
				PromiseCommand: &t_aio.CreatePromiseCommand{Id: p, Param: val("pt"), Timeout: 10, Tags: map[string]string{"resonate:invoke": "x"}, CreatedOn: 1},
				TaskCommand:    &t_aio.CreateTaskCommand{Id: "t1", Recv: []byte(`"y"`), Mesg: &message.Mesg{Type: message.Invoke, Root: p, Leaf: p}, Timeout: 11, State: task.Init, CreatedOn: 1}}}
		}))
	}
	for _, t := range []int64{0, 5, 10} {
		for _, lim := range []int{1, 2} {
			t, lim := t, lim
			a = append(a, one(fmt.Sprintf("ReadPromises(t=%d,limit=%d)", t, lim), false, func() *t_aio.Command {
				return &t_aio.Command{Kind: t_aio.ReadPromises, ReadPromises: &t_aio.ReadPromisesCommand{Time: t, Limit: lim}}
			}))
		}
	}
	for _, pat := range []string{"*", "p1", "*2"} {
		for _, sts := range [][]promise.State{{promise.Pending, promise.Resolved, promise.Rejected, promise.Canceled, promise.Timedout}, {promise.Pending}, {promise.Rejected, promise.Canceled, promise.Timedout}} {
			for _, tg := range []map[string]string{{}, {"x": "1"}} {
				for _, lim := range []int{1, 2} {
					for _, sid := range []*int64{nil, i64p(2)} {
						pat, sts, tg, lim, sid := pat, sts, tg, lim, sid
						if tier != "thorough" && ((len(tg) > 0 && lim == 2) || (sid != nil && pat != "*")) {
							continue
						}
						a = append(a, one(fmt.Sprintf("SearchPromises(%s,%d states,%v,limit=%d,sortId=%v)", pat, len(sts), tg, lim, sid != nil), false, func() *t_aio.Command {
							return &t_aio.Command{Kind: t_aio.SearchPromises, SearchPromises: &t_aio.SearchPromisesCommand{Id: pat, States: sts, Tags: tg, Limit: lim, SortId: sid}}
						}))
					}
				}
			}
		}
	}
	for _, s := range []string{"s1", "s2"} {
		s := s
		a = append(a, one("ReadSchedule("+s+")", false, func() *t_aio.Command {
			return &t_aio.Command{Kind: t_aio.ReadSchedule, ReadSchedule: &t_aio.ReadScheduleCommand{Id: s}}
		}))
		for _, next := range []int64{5, 10} {
			next := next
			a = append(a, one(fmt.Sprintf("CreateSchedule(%s,next=%d)", s, next), true, func() *t_aio.Command {
				return &t_aio.Command{Kind: t_aio.CreateSchedule, CreateSchedule: &t_aio.CreateScheduleCommand{Id: s, Description: "d", Cron: "* * * * *", Tags: map[string]string{"x": "1"}, PromiseId: s + ".{{.timestamp}}", PromiseTimeout: 9,
					PromiseParam: val("sp"), PromiseTags: map[string]string{"y": "2"}, NextRunTime: next, IdempotencyKey: k("sk"), CreatedOn: 1}}
			}))
		}
		for _, last := range []int64{5, 10} {
			last := last
			a = append(a, one(fmt.Sprintf("UpdateSchedule(%s,last=%d,next=%d)", s, last, last+5), true, func() *t_aio.Command {
				return &t_aio.Command{Kind: t_aio.UpdateSchedule, UpdateSchedule: &t_aio.UpdateScheduleCommand{Id: s, LastRunTime: i64p(last), NextRunTime: last + 5}}
			}))
		}
		a = append(a, one("DeleteSchedule("+s+")", true, func() *t_aio.Command {
			return &t_aio.Command{Kind: t_aio.DeleteSchedule, DeleteSchedule: &t_aio.DeleteScheduleCommand{Id: s}}
		}))
		// schedule firing as the coroutine issues it
		a = append(a, Tx{Label: "Fire(" + s + "@5)", Mutating: true, Cmds: func() []*t_aio.Command {
			return []*t_aio.Command{
				{Kind: t_aio.CreatePromise, CreatePromise: &t_aio.CreatePromiseCommand{Id: s + ".5", Param: val("sp"), Timeout: 14, Tags: map[string]string{"resonate:schedule": s}, CreatedOn: 6}},
				{Kind: t_aio.UpdateSchedule, UpdateSchedule: &t_aio.UpdateScheduleCommand{Id: s, LastRunTime: i64p(5), NextRunTime: 10}},
			}
		}})
	}
	for _, t := range []int64{5, 10} {
		for _, lim := range []int{1, 2} {
			t, lim := t, lim
			a = append(a, one(fmt.Sprintf("ReadSchedules(t=%d,limit=%d)", t, lim), false, func() *t_aio.Command {
				return &t_aio.Command{Kind: t_aio.ReadSchedules, ReadSchedules: &t_aio.ReadSchedulesCommand{NextRunTime: t, Limit: lim}}
			}))
		}
	}
	for _, lim := range []int{1, 2} {
		for _, sid := range []*int64{nil, i64p(2)} {
			lim, sid := lim, sid
			a = append(a, one(fmt.Sprintf("SearchSchedules(*,limit=%d,sortId=%v)", lim, sid != nil), false, func() *t_aio.Command {
				return &t_aio.Command{Kind: t_aio.SearchSchedules, SearchSchedules: &t_aio.SearchSchedulesCommand{Id: "*", Tags: map[string]string{"x": "1"}, Limit: lim, SortId: sid}}
			}))
		}
	}
	tids := []string{"t1", "c1p1"}
	for _, id := range tids {
		id := id
		a = append(a, one("ReadTask("+id+")", false, func() *t_aio.Command {
			return &t_aio.Command{Kind: t_aio.ReadTask, ReadTask: &t_aio.ReadTaskCommand{Id: id}}
		}))
		for _, st := range []task.State{task.Init, task.Claimed} {
			st := st
			a = append(a, one(fmt.Sprintf("CreateTask(%s,state=%d)", id, st), true, func() *t_aio.Command {
				c := &t_aio.CreateTaskCommand{Id: id, Recv: []byte(`"r"`), Mesg: &message.Mesg{Type: message.Invoke, Root: "p1", Leaf: "p1"}, Timeout: 10, State: st, CreatedOn: 1}
				if st == task.Claimed {
					c.ProcessId, c.Ttl, c.ExpiresAt = strp("w1"), 5, 6
				}
				return &t_aio.Command{Kind: t_aio.CreateTask, CreateTask: c}
			}))
		}
		type upd struct {
			name           string
			state          task.State
			cur            []task.State
			counter, curC  int
			attempt, ttl   int
			exp            int64
			pid            *string
			done           *int64
		}
		for _, u := range []upd{
			{"claim(c=1)", task.Claimed, []task.State{task.Init, task.Enqueued}, 1, 1, 0, 5, 9, strp("w1"), nil},
			{"claim(c=2)", task.Claimed, []task.State{task.Init, task.Enqueued}, 2, 2, 0, 5, 9, strp("w2"), nil},
			{"enqueue", task.Enqueued, []task.State{task.Init}, 1, 1, 0, 0, 7, nil, nil},
			{"retry", task.Init, []task.State{task.Init}, 1, 1, 1, 0, 7, nil, nil},
			{"reset(c1->2)", task.Init, []task.State{task.Enqueued, task.Claimed}, 2, 1, 0, 0, 0, nil, nil},
			{"complete(c=1)", task.Completed, []task.State{task.Claimed}, 1, 1, 0, 0, 0, nil, i64p(8)},
			{"timeout", task.Timedout, []task.State{task.Init}, 1, 1, 0, 0, 0, nil, i64p(10)},
		} {
			u := u
			a = append(a, one(fmt.Sprintf("UpdateTask(%s,%s)", id, u.name), true, func() *t_aio.Command {
				return &t_aio.Command{Kind: t_aio.UpdateTask, UpdateTask: &t_aio.UpdateTaskCommand{Id: id, ProcessId: u.pid, State: u.state, Counter: u.counter, Attempt: u.attempt, Ttl: u.ttl, ExpiresAt: u.exp, CompletedOn: u.done, CurrentStates: u.cur, CurrentCounter: u.curC}}
			}))
		}
	}
	for _, lim := range []int{1, 2} {
		lim := lim
		a = append(a, one(fmt.Sprintf("ReadEnqueueableTasks(limit=%d)", lim), false, func() *t_aio.Command {
			return &t_aio.Command{Kind: t_aio.ReadEnqueueableTasks, ReadEnquableTasks: &t_aio.ReadEnqueueableTasksCommand{Time: 5, Limit: lim}}
		}))
		for _, t := range []int64{0, 6, 10} {
			t := t
			a = append(a, one(fmt.Sprintf("ReadTasks(enq|claimed,t=%d,limit=%d)", t, lim), false, func() *t_aio.Command {
				return &t_aio.Command{Kind: t_aio.ReadTasks, ReadTasks: &t_aio.ReadTasksCommand{States: []task.State{task.Enqueued, task.Claimed}, Time: t, Limit: lim}}
			}))
		}
	}
	for _, pid := range []string{"w1", "w2"} {
		pid := pid
		a = append(a, one("HeartbeatTasks("+pid+",t=7)", true, func() *t_aio.Command {
			return &t_aio.Command{Kind: t_aio.HeartbeatTasks, HeartbeatTasks: &t_aio.HeartbeatTasksCommand{ProcessId: pid, Time: 7}}
		}))
		a = append(a, one("HeartbeatLocks("+pid+",t=7)", true, func() *t_aio.Command {
			return &t_aio.Command{Kind: t_aio.HeartbeatLocks, HeartbeatLocks: &t_aio.HeartbeatLocksCommand{ProcessId: pid, Time: 7}}
		}))
	}
	for _, r := range []string{"l1", "l2"} {
		r := r
		a = append(a, one("ReadLock("+r+")", false, func() *t_aio.Command {
			return &t_aio.Command{Kind: t_aio.ReadLock, ReadLock: &t_aio.ReadLockCommand{ResourceId: r}}
		}))
		for _, e := range []string{"e1", "e2"} {
			for _, pid := range []string{"w1", "w2"} {
				e, pid := e, pid
				if tier != "thorough" && r == "l2" && pid == "w2" {
					continue
				}
				a = append(a, one(fmt.Sprintf("AcquireLock(%s,%s,%s)", r, e, pid), true, func() *t_aio.Command {
					ttl := int64(5)
					if pid == "w2" {
						ttl = 0
					}
					return &t_aio.Command{Kind: t_aio.AcquireLock, AcquireLock: &t_aio.AcquireLockCommand{ResourceId: r, ExecutionId: e, ProcessId: pid, Ttl: ttl, ExpiresAt: 4 + ttl}}
				}))
			}
			e := e
			a = append(a, one(fmt.Sprintf("ReleaseLock(%s,%s)", r, e), true, func() *t_aio.Command {
				return &t_aio.Command{Kind: t_aio.ReleaseLock, ReleaseLock: &t_aio.ReleaseLockCommand{ResourceId: r, ExecutionId: e}}
			}))
		}
	}
	for _, t := range []int64{3, 4, 9} {
		t := t
		a = append(a, one(fmt.Sprintf("TimeoutLocks(t=%d)", t), true, func() *t_aio.Command {
			return &t_aio.Command{Kind: t_aio.TimeoutLocks, TimeoutLocks: &t_aio.TimeoutLocksCommand{Timeout: t}}
		}))
	}
	return a
}
