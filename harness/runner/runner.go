// Package runner is the process model shared by the engines: a parent that hands
// jobs to crash-isolated worker processes, merges their counters into the
// evidence file, triages violations against the committed known-findings file
// and prints the VIOLATION / KNOWN-FINDING lines of the interface.
package runner

import (
	"bufio"
	"encoding/json"
	"flag"
	"fmt"
	"os"
	"os/exec"
	"path/filepath"
	"runtime"
	"runtime/debug"
	"runtime/pprof"
	"sort"
	"strconv"
	"strings"
	"sync"
	"time"
)

type Violation struct {
	Sig    string `json:"sig"`
	Msg    string `json:"msg"`
	Job    string `json:"job"`
	Replay any    `json:"replay,omitempty"`
	Flaky  bool   `json:"flaky,omitempty"`
}

type JobResult struct {
	Name        string            `json:"name"`
	Executions  int64             `json:"executions"`
	States      int64             `json:"states"`
	Transitions int64             `json:"transitions"`
	Cut         int64             `json:"cut"`
	MaxDepth    int               `json:"max_depth"`
	Capped      bool              `json:"capped"`
	Outcomes    []string          `json:"outcomes"` // hashes of distinct observation vectors
	Violations  []Violation       `json:"violations"`
	Samples     []any             `json:"samples"`
	Counters    map[string]int64  `json:"counters,omitempty"`
	Notes       []string          `json:"notes,omitempty"`
	HarnessErr  string            `json:"harness_error,omitempty"`
	Recycle     bool              `json:"recycle,omitempty"` // the worker process should be replaced (heap grown by leaks of the code under test)
	WallS       float64           `json:"wall_s"`
}

type Job interface {
	Name() string
	Run(deadline time.Time) *JobResult
}

// Resumable jobs enumerate numbered items and announce each one with TraceItem
// before trying it: when an item kills the worker process the parent attributes the
// death to that item and restarts the job at the next one.
type Resumable interface {
	Job
	RunFrom(start int, deadline time.Time) *JobResult
}

// TraceItem records "about to try item k" (with the signature key of that input).
func TraceItem(job string, k int, sigKey string, detail string) {
	Trace(fmt.Sprintf("ITEM %d SIG %s JOB %s DETAIL %s", k, sigKey, job, detail))
}

// Trace is written before every execution so that a parent can attribute the
// death of a worker process to the execution that caused it.
var traceFile *os.File

func Trace(s string) {
	if traceFile == nil {
		return
	}
	const width = 4096
	b := make([]byte, width)
	for i := range b {
		b[i] = ' '
	}
	if len(s) > width-1 {
		s = s[:width-1]
	}
	copy(b, s)
	b[width-1] = '\n'
	_, _ = traceFile.WriteAt(b, 0)
}

type Spec struct {
	Property   string
	Engine     string
	Level      string // evidence level
	Jobs       func(tier string) []Job
	Rule       string
	Assume     []string
	QuickS     int // exploration budget in seconds
	ThoroughS  int
	Extra      func(tier string, results []*JobResult) map[string]any // additional coverage keys
	Replay     func(path string) int
	PostCheck  func(tier string, results []*JobResult) []Violation // cross-job oracles (run in the parent)
}

type known struct {
	Findings []struct {
		Property  string `json:"property"`
		Signature string `json:"signature"`
		What      string `json:"what"`
	} `json:"findings"`
	Fixed []map[string]any `json:"fixed"`
}

// KnownSigs returns the signatures of the open known findings of a property, so
// that an engine can keep exploring past them instead of stopping at the first.
func KnownSigs(property string) map[string]bool {
	out := map[string]bool{}
	for _, f := range loadKnown().Findings {
		if f.Property == property {
			out[f.Signature] = true
		}
	}
	return out
}

func loadKnown() *known {
	k := &known{}
	b, err := os.ReadFile(Home() + "/known_findings.json")
	if err != nil {
		return k
	}
	if err := json.Unmarshal(b, k); err != nil {
		fmt.Fprintf(os.Stderr, "known_findings.json: %v\n", err)
		os.Exit(2)
	}
	return k
}

// Home is the verification directory (the scripts export VERIF_HOME so that a snapshot
// of the directory works from where it is).
func Home() string {
	if h := os.Getenv("VERIF_HOME"); h != "" {
		return h
	}
	return "/verif"
}

func Main(spec *Spec) {
	tier := flag.String("tier", "quick", "quick|thorough")
	worker := flag.Bool("worker", false, "internal: run as worker")
	replay := flag.String("replay", "", "replay a violation file")
	only := flag.String("only", "", "only jobs whose name contains this")
	nw := flag.Int("j", 0, "worker processes")
	budget := flag.Int("budget", 0, "override exploration budget in seconds")
	list := flag.Bool("list", false, "list jobs")
	flag.Parse()

	if *replay != "" {
		if spec.Replay == nil {
			fmt.Fprintln(os.Stderr, "no replay support")
			os.Exit(2)
		}
		os.Exit(spec.Replay(*replay))
	}
	jobs := spec.Jobs(*tier)
	if *only != "" {
		var f []Job
		for _, j := range jobs {
			if strings.Contains(j.Name(), *only) {
				f = append(f, j)
			}
		}
		jobs = f
	}
	if *list {
		for i, j := range jobs {
			fmt.Printf("%d %s\n", i, j.Name())
		}
		return
	}
	if *worker {
		runWorker(jobs)
		return
	}
	start := time.Now()
	secs := spec.QuickS
	if *tier == "thorough" {
		secs = spec.ThoroughS
	}
	if *budget > 0 {
		secs = *budget
	}
	if secs == 0 {
		secs = 60
	}
	deadline := start.Add(time.Duration(secs) * time.Second)
	n := *nw
	if n == 0 {
		n = runtime.NumCPU()
		if n > 16 {
			n = 16
		}
	}
	if n > len(jobs) {
		n = len(jobs)
	}
	if len(jobs) == 0 {
		fmt.Fprintln(os.Stderr, "no jobs")
		os.Exit(2)
	}
	seed := 0
	if s := os.Getenv("VERIF_SEED"); s != "" {
		seed, _ = strconv.Atoi(s)
	}

	// job order: the seed only rotates the order in which jobs are handed out
	order := make([]int, len(jobs))
	for i := range order {
		order[i] = (i + seed) % len(jobs)
		if seed < 0 {
			order[i] = i
		}
	}
	results := make([]*JobResult, len(jobs))
	var mu sync.Mutex
	next := 0
	crashes := 0
	var wg sync.WaitGroup
	harnessErrs := []string{}
	for wi := 0; wi < n; wi++ {
		wg.Add(1)
		go func(wi int) {
			defer wg.Done()
			var wp *workerProc
			for {
				mu.Lock()
				if next >= len(order) || crashes >= 3 {
					mu.Unlock()
					break
				}
				ji := order[next]
				next++
				mu.Unlock()
				if wp == nil {
					var err error
					wp, err = startWorker(*tier, *only, deadline)
					if err != nil {
						mu.Lock()
						harnessErrs = append(harnessErrs, err.Error())
						mu.Unlock()
						return
					}
				}
				var res *JobResult
				start := 0
				for {
					part, crashed := wp.run(ji, start)
					if crashed == "" {
						if res == nil {
							res = part
						} else {
							mergeInto(res, part)
						}
						break
					}
					tr := wp.lastTrace()
					item, sigKey, detail := parseItemTrace(tr)
					v := Violation{Job: jobs[ji].Name(), Replay: map[string]any{"job": jobs[ji].Name(), "trace": tr}}
					if item >= 0 {
						v.Sig = "crash:" + sigKey + ":" + crashSig(crashed)
						v.Msg = fmt.Sprintf("the server process died on input %s\n%s", detail, tail(crashed, 1500))
					} else {
						v.Sig = "crash:" + crashSig(crashed)
						v.Msg = "the process died while exploring this job (a panic on a kernel/coroutine/worker goroutine cannot be recovered): " + tail(crashed, 1500)
					}
					if res == nil {
						res = &JobResult{Name: jobs[ji].Name()}
					}
					res.Violations = append(res.Violations, v)
					wp.kill()
					wp = nil
					_, resumable := jobs[ji].(Resumable)
					mu.Lock()
					if !(resumable && item >= 0) {
						crashes++ // after a few process deaths the remaining jobs are not started
					}
					mu.Unlock()
					if !(resumable && item >= 0) || len(res.Violations) > 200 {
						res.Capped = true
						break
					}
					start = item + 1
					var err error
					wp, err = startWorker(*tier, *only, deadline)
					if err != nil {
						res.Capped = true
						break
					}
				}
				mu.Lock()
				results[ji] = res
				mu.Unlock()
				if wp != nil && res != nil && res.Recycle {
					wp.close() // a fresh process for the next job
					wp = nil
				}
			}
			if wp != nil {
				wp.close()
			}
		}(wi)
	}
	wg.Wait()
	if len(harnessErrs) > 0 {
		fmt.Fprintf(os.Stderr, "harness error: %s\n", strings.Join(harnessErrs, "; "))
		os.Exit(2)
	}

	finish(spec, *tier, seed, start, jobs, results)
}

func parseItemTrace(tr string) (int, string, string) {
	if !strings.HasPrefix(tr, "ITEM ") {
		return -1, "", ""
	}
	rest := tr[5:]
	sp := strings.Index(rest, " SIG ")
	if sp < 0 {
		return -1, "", ""
	}
	k, err := strconv.Atoi(rest[:sp])
	if err != nil {
		return -1, "", ""
	}
	rest = rest[sp+5:]
	sig, detail := rest, ""
	if j := strings.Index(rest, " JOB "); j >= 0 {
		sig = rest[:j]
		if d := strings.Index(rest, " DETAIL "); d >= 0 {
			detail = rest[d+8:]
		}
	}
	return k, sig, detail
}

func mergeInto(a, b *JobResult) {
	a.Executions += b.Executions
	a.States += b.States
	a.Transitions += b.Transitions
	a.Cut += b.Cut
	if b.MaxDepth > a.MaxDepth {
		a.MaxDepth = b.MaxDepth
	}
	a.Capped = a.Capped || b.Capped
	a.Outcomes = append(a.Outcomes, b.Outcomes...)
	a.Violations = append(a.Violations, b.Violations...)
	if len(a.Samples) == 0 {
		a.Samples = b.Samples
	}
	for k, v := range b.Counters {
		if a.Counters == nil {
			a.Counters = map[string]int64{}
		}
		a.Counters[k] += v
	}
	a.Notes = append(a.Notes, b.Notes...)
	if b.HarnessErr != "" {
		a.HarnessErr = b.HarnessErr
	}
	a.WallS += b.WallS
}

func crashSig(stderr string) string {
	for _, l := range strings.Split(stderr, "\n") {
		if strings.HasPrefix(l, "panic: ") {
			s := strings.TrimPrefix(l, "panic: ")
			if i := strings.Index(s, " [recovered]"); i >= 0 {
				s = s[:i]
			}
			if len(s) > 120 {
				s = s[:120]
			}
			return s
		}
		if strings.HasPrefix(l, "fatal error: ") {
			return l
		}
	}
	return "unknown"
}

func tail(s string, n int) string {
	if len(s) > n {
		return s[:n]
	}
	return s
}

func finish(spec *Spec, tier string, seed int, start time.Time, jobs []Job, results []*JobResult) {
	kn := loadKnown()
	var all []Violation
	tot := &JobResult{}
	outcomes := map[string]bool{}
	samples := []any{}
	capped := false
	herr := []string{}
	counters := map[string]int64{}
	jobSummaries := []map[string]any{}
	for i, r := range results {
		if r == nil {
			capped = true
			continue
		}
		if r.HarnessErr != "" {
			herr = append(herr, jobs[i].Name()+": "+r.HarnessErr)
		}
		tot.Executions += r.Executions
		tot.States += r.States
		tot.Transitions += r.Transitions
		tot.Cut += r.Cut
		if r.MaxDepth > tot.MaxDepth {
			tot.MaxDepth = r.MaxDepth
		}
		capped = capped || r.Capped
		base := r.Name
		if i := strings.Index(base, " #"); i >= 0 {
			base = base[:i] // shards of one scenario share its outcome set
		}
		for _, o := range r.Outcomes {
			outcomes[base+"#"+o] = true
		}
		for k, v := range r.Counters {
			counters[k] += v
		}
		if len(samples) < 5 && len(r.Samples) > 0 {
			samples = append(samples, map[string]any{"job": r.Name, "case": r.Samples[0]})
		}
		all = append(all, r.Violations...)
		if len(jobSummaries) < 400 {
			jobSummaries = append(jobSummaries, map[string]any{"job": r.Name, "executions": r.Executions, "states": r.States, "outcomes": len(r.Outcomes), "capped": r.Capped})
		}
	}
	if spec.PostCheck != nil {
		all = append(all, spec.PostCheck(tier, results)...)
	}
	if len(herr) > 0 {
		fmt.Fprintf(os.Stderr, "harness error (not a violation): %s\n", strings.Join(herr, "\n"))
		os.Exit(2)
	}

	// triage
	seenSig := map[string]bool{}
	knownHit := map[string]string{}
	var fresh []Violation
	for _, v := range all {
		if v.Flaky {
			fmt.Fprintf(os.Stderr, "harness error: non-deterministic violation %s in %s: %s\n", v.Sig, v.Job, v.Msg)
			os.Exit(2)
		}
		if seenSig[v.Sig] {
			continue
		}
		seenSig[v.Sig] = true
		matched := false
		for _, f := range kn.Findings {
			if f.Property == spec.Property && f.Signature == v.Sig {
				knownHit[v.Sig] = f.What
				matched = true
			}
		}
		if !matched {
			fresh = append(fresh, v)
		}
	}
	sigs := make([]string, 0, len(knownHit))
	for s := range knownHit {
		sigs = append(sigs, s)
	}
	sort.Strings(sigs)
	for _, s := range sigs {
		fmt.Printf("KNOWN-FINDING: property=%s %s [%s]\n", spec.Property, knownHit[s], s)
	}
	_ = os.MkdirAll(Home()+"/replays", 0o755)
	if old, _ := filepath.Glob(fmt.Sprintf(Home()+"/replays/%s-*.json", spec.Property)); old != nil {
		for _, f := range old {
			_ = os.Remove(f)
		}
	}
	for i, v := range fresh {
		path := fmt.Sprintf(Home()+"/replays/%s-%d.json", spec.Property, i)
		b, _ := json.MarshalIndent(map[string]any{"property": spec.Property, "signature": v.Sig, "message": v.Msg, "job": v.Job, "replay": v.Replay}, "", " ")
		_ = os.WriteFile(path, b, 0o644)
		fmt.Printf("VIOLATION property=%s replay=%s\n", spec.Property, path)
		fmt.Printf("  signature: %s\n  %s\n", v.Sig, strings.ReplaceAll(tail(v.Msg, 2000), "\n", "\n  "))
	}

	cov := map[string]any{
		"states":                        max64(tot.States, 1),
		"transitions":                   max64(tot.Transitions, 1),
		"traces_validated_against_impl": tot.Executions,
		"evaluations":                   tot.Executions,
		"distinct_nontrivial":           len(outcomes),
		"rule":                          spec.Rule,
		"samples":                       samples,
		"exhaustive":                    !capped,
		"executions_cut_at_visited_state": tot.Cut,
		"max_depth":                     tot.MaxDepth,
		"jobs":                          len(jobs),
		"job_summaries":                 jobSummaries,
		"known_findings_hit":            sigs,
		"monitor_counters":              counters,
	}
	if len(samples) == 0 {
		cov["samples"] = []any{"(no sample recorded)"}
	}
	if spec.Extra != nil {
		for k, v := range spec.Extra(tier, results) {
			cov[k] = v
		}
	}
	ev := map[string]any{
		"property_id": spec.Property,
		"tier":        tier,
		"seed":        seed,
		"level":       spec.Level,
		"coverage":    cov,
		"assumptions": spec.Assume,
		"wall_s":      time.Since(start).Seconds(),
		"violations":  len(fresh),
	}
	b, _ := json.MarshalIndent(ev, "", " ")
	_ = os.MkdirAll(Home()+"/evidence", 0o755)
	if err := os.WriteFile(filepath.Join(Home()+"/evidence", spec.Property+".json"), b, 0o644); err != nil {
		fmt.Fprintf(os.Stderr, "cannot write evidence: %v\n", err)
		os.Exit(2)
	}
	fmt.Printf("%s %s: jobs=%d executions=%d states=%d transitions=%d distinct_outcomes=%d exhaustive=%v known=%d violations=%d wall=%.1fs\n",
		spec.Property, tier, len(jobs), tot.Executions, tot.States, tot.Transitions, len(outcomes), !capped, len(sigs), len(fresh), time.Since(start).Seconds())
	if len(fresh) > 0 {
		os.Exit(1)
	}
}

func max64(a, b int64) int64 {
	if a > b {
		return a
	}
	return b
}

// --- worker side -------------------------------------------------------------

var workerDeadline time.Time

func runWorker(jobs []Job) {
	if p := os.Getenv("VERIF_TRACEFILE"); p != "" {
		f, err := os.OpenFile(p, os.O_CREATE|os.O_RDWR|os.O_TRUNC, 0o644)
		if err == nil {
			traceFile = f
		}
	}
	if d := os.Getenv("VERIF_DEADLINE"); d != "" {
		ns, _ := strconv.ParseInt(d, 10, 64)
		workerDeadline = time.Unix(0, ns)
	}
	if p := os.Getenv("VERIF_CPUPROFILE"); p != "" {
		f, _ := os.Create(p)
		_ = pprof.StartCPUProfile(f)
		defer pprof.StopCPUProfile()
	}
	debug.SetMaxStack(64 << 20) // runaway recursion in the code under test fails fast
	in := bufio.NewScanner(os.Stdin)
	out := bufio.NewWriter(os.Stdout)
	for in.Scan() {
		parts := strings.Fields(in.Text())
		ji, err := -1, error(nil)
		start := 0
		if len(parts) >= 1 {
			ji, err = strconv.Atoi(parts[0])
		}
		if len(parts) >= 2 {
			start, _ = strconv.Atoi(parts[1])
		}
		if err != nil || ji < 0 || ji >= len(jobs) {
			fmt.Fprintf(os.Stderr, "worker: bad job index %q\n", in.Text())
			os.Exit(3)
		}
		Trace("JOB " + jobs[ji].Name())
		t0 := time.Now()
		var res *JobResult
		if rj, ok := jobs[ji].(Resumable); ok {
			res = rj.RunFrom(start, workerDeadline)
		} else {
			res = jobs[ji].Run(workerDeadline)
		}
		res.Name = jobs[ji].Name()
		res.WallS = time.Since(t0).Seconds()
		var ms runtime.MemStats
		runtime.GC()
		runtime.ReadMemStats(&ms)
		if ms.HeapAlloc>>20 > 512 {
			res.Recycle = true
		}
		b, _ := json.Marshal(res)
		out.Write(b)
		out.WriteByte('\n')
		out.Flush()
	}
}

type workerProc struct {
	cmd    *exec.Cmd
	stdin  interface{ Close() error }
	in     *bufio.Writer
	out    *bufio.Reader
	stderr *strings.Builder
	trace  string
	done   chan struct{}
}

func startWorker(tier, only string, deadline time.Time) (*workerProc, error) {
	self, err := os.Executable()
	if err != nil {
		return nil, err
	}
	args := []string{"-worker", "-tier", tier}
	if only != "" {
		args = append(args, "-only", only)
	}
	cmd := exec.Command(self, args...)
	_ = os.MkdirAll(Home()+"/.ov", 0o755)
	tf, err := os.CreateTemp(Home()+"/.ov", "trace.*")
	if err != nil {
		return nil, err
	}
	tf.Close()
	cmd.Env = append(os.Environ(), "VERIF_TRACEFILE="+tf.Name(), "VERIF_DEADLINE="+strconv.FormatInt(deadline.UnixNano(), 10), "GOMAXPROCS=1")
	stdin, _ := cmd.StdinPipe()
	stdout, _ := cmd.StdoutPipe()
	sb := &strings.Builder{}
	stderr, _ := cmd.StderrPipe()
	if err := cmd.Start(); err != nil {
		return nil, err
	}
	wp := &workerProc{cmd: cmd, stdin: stdin, in: bufio.NewWriter(stdin), out: bufio.NewReaderSize(stdout, 1<<20), stderr: sb, trace: tf.Name(), done: make(chan struct{})}
	go func() {
		b := make([]byte, 64<<10)
		for {
			n, err := stderr.Read(b)
			if n > 0 && sb.Len() < 1<<20 {
				sb.Write(b[:n])
			}
			if err != nil {
				break
			}
		}
		close(wp.done)
	}()
	return wp, nil
}

func (wp *workerProc) run(ji int, start int) (*JobResult, string) {
	fmt.Fprintf(wp.in, "%d %d\n", ji, start)
	wp.in.Flush()
	line, err := wp.out.ReadBytes('\n')
	if err != nil {
		<-wp.done
		_ = wp.cmd.Wait()
		s := wp.stderr.String()
		if s == "" {
			s = "worker exited without output: " + err.Error()
		}
		return nil, s
	}
	res := &JobResult{}
	if err := json.Unmarshal(line, res); err != nil {
		return nil, "worker produced unparsable output: " + err.Error()
	}
	return res, ""
}

func (wp *workerProc) lastTrace() string {
	b, _ := os.ReadFile(wp.trace)
	return strings.TrimSpace(string(b))
}

func (wp *workerProc) kill() {
	_ = wp.cmd.Process.Kill()
	_ = os.Remove(wp.trace)
}

func (wp *workerProc) close() {
	wp.in.Flush()
	_ = wp.stdin.Close()
	<-wp.done
	_ = wp.cmd.Wait()
	_ = os.Remove(wp.trace)
}
