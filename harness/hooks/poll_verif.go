//go:build verif

package poll

import "net/http"

// VerifHandler / VerifWorker expose the real handler and worker so that the
// verification harness can run ServeHTTP and PollWorker.Start as scheduled threads
// without a network.
func (p *Poll) VerifHandler() http.Handler { return p.server.server.Handler }
func (p *Poll) VerifWorker() *PollWorker   { return p.worker }

// VerifCloseListener releases the listening socket New opened.
func (p *Poll) VerifCloseListener() { _ = p.server.listen.Close() }

// VerifRegistered is the number of connections the worker has registered (read by the
// harness only while the worker thread is parked).
func (p *Poll) VerifRegistered() int { return p.worker.connections.len }

// VerifChans: the three queues of the transport (identities for the event log).
func (p *Poll) VerifChans() (sq, connect, disconnect any) { return p.sq, p.connect, p.disconnect }
