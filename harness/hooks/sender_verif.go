//go:build verif

package sender

// VerifWorker exposes the real worker so that the verification harness can run
// receiver resolution and body building (SenderWorker.Process) with its own plugins.
func (s *Sender) VerifWorker() *SenderWorker { return s.worker }
