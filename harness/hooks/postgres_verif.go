//go:build verif

package postgres

import (
	"database/sql"

	"github.com/resonatehq/resonate/internal/kernel/bus"
	"github.com/resonatehq/resonate/internal/kernel/t_aio"
	"github.com/resonatehq/resonate/internal/metrics"
)

// VerifNew builds the store and one worker exactly as New does, but on a database
// handle supplied by the verification harness (a driver that translates the
// Postgres dialect), because no PostgreSQL server exists in the sandbox.
func VerifNew(db *sql.DB, metrics *metrics.Metrics, config *Config) *PostgresStore {
	sq := make(chan *bus.SQE[t_aio.Submission, t_aio.Completion], config.Size)
	worker := &PostgresStoreWorker{
		config:  config,
		i:       0,
		db:      db,
		sq:      sq,
		flush:   make(chan int64, 1),
		aio:     nil,
		metrics: metrics,
	}
	return &PostgresStore{config: config, sq: sq, db: db, workers: []*PostgresStoreWorker{worker}}
}

// VerifCreateTables runs the store's own schema statement.
func (s *PostgresStore) VerifCreateTables() error {
	_, err := s.db.Exec(CREATE_TABLE_STATEMENT)
	return err
}
