//go:build verif

package sqlite

import "database/sql"

// VerifDB exposes the connection pool the store works on (observer queries).
func (s *SqliteStore) VerifDB() *sql.DB { return s.db }

// VerifCloseQueue ends the worker goroutine of an abandoned (crashed) store
// without closing or resetting the database.
func (s *SqliteStore) VerifCloseQueue() { close(s.sq) }
