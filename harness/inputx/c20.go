package inputx

import (
	"reflect"
	"encoding/json"
	"fmt"
	"sort"
	"strings"
	"time"

	"github.com/resonatehq/resonate/internal/app/subsystems/api/grpc/pb"
	"github.com/resonatehq/resonate/internal/kernel/t_api"
	"github.com/resonatehq/resonate/internal/verif/runner"
	"github.com/resonatehq/resonate/internal/verif/world"
	"github.com/resonatehq/resonate/pkg/promise"
)

// ---------------------------------------------------------------------------
// C20 — client data is stored and returned exactly as supplied
// ---------------------------------------------------------------------------

type sval struct{ name, v string }

func stringMenu(tier string) []sval {
	m := []sval{
		{"ascii", "plain-Value_1"}, {"slash", "a/b/c"}, {"trailing-slash", "a/b/"}, {"leading-slash", "/a/b"}, {"double-slash", "a//b"}, {"only-slash", "/"}, {"seps", "x:y?z#w%v_u*t"}, {"markup", `a<b>&"c"'d'`}, {"space", " lead trail "},
		{"case", "MiXeD"}, {"non-ascii", "héllo✓日本"}, {"percent-escape", "a%2Fb%20c"}, {"backslash", `a\b\"c`}, {"newline", "a\nb\tc"},
		{"json-ish", `{"k":[1,null]}`}, {"tmpl", "{{.id}}"}, {"dot-dot", "../x"}, {"plus", "a+b c"},
	}
	if tier == "thorough" {
		m = append(m, sval{"64k", big}, sval{"nul", "a\x00b"}, sval{"rtl", "‮abc"})
	}
	return m
}

func allBytes() []byte {
	b := make([]byte, 256)
	for i := range b {
		b[i] = byte(i)
	}
	return b
}

type observed struct {
	where string
	p     *promise.Promise
}

// readers: every way a promise comes back to a client
func readPromiseEverywhere(k *Kernel, id string, pat string) []observed {
	var out []observed
	if rep := k.F.HTTP(HTTPReq{Method: "GET", Path: "/promises/" + esc(id)}); rep.Code == 200 {
		var p promise.Promise
		if json.Unmarshal(rep.Body, &p) == nil {
			out = append(out, observed{"http-read", &p})
		} else {
			out = append(out, observed{"http-read:undecodable:" + string(rep.Body), nil})
		}
	} else {
		out = append(out, observed{fmt.Sprintf("http-read:status=%d", rep.Code), nil})
	}
	if rep := k.F.GRPCSend(&pb.ReadPromiseRequest{Id: id}); rep.Code == "OK" {
		out = append(out, observed{"grpc-read", fromPB(rep.Msg.(*pb.ReadPromiseResponse).Promise)})
	} else {
		out = append(out, observed{"grpc-read:" + rep.Code, nil})
	}
	if pat != "" {
		if rep := k.F.HTTP(HTTPReq{Method: "GET", Path: "/promises?id=" + strings.ReplaceAll(esc(pat), "/", "%2F")}); rep.Code == 200 {
			var sr struct {
				Promises []*promise.Promise `json:"promises"`
			}
			_ = json.Unmarshal(rep.Body, &sr)
			for _, p := range sr.Promises {
				if p.Id == id {
					out = append(out, observed{"http-search", p})
				}
			}
		}
		if rep := k.F.GRPCSend(&pb.SearchPromisesRequest{Id: pat, Limit: 100}); rep.Code == "OK" {
			for _, p := range rep.Msg.(*pb.SearchPromisesResponse).Promises {
				if p.Id == id {
					out = append(out, observed{"grpc-search", fromPB(p)})
				}
			}
		}
	}
	return out
}

func fromPB(p *pb.Promise) *promise.Promise {
	if p == nil {
		return nil
	}
	out := &promise.Promise{Id: p.Id, Timeout: p.Timeout, Tags: p.Tags}
	if p.Param != nil {
		out.Param = promise.Value{Headers: p.Param.Headers, Data: p.Param.Data}
	}
	if p.Value != nil {
		out.Value = promise.Value{Headers: p.Value.Headers, Data: p.Value.Data}
	}
	if p.IdempotencyKeyForCreate != "" {
		out.IdempotencyKeyForCreate = key(p.IdempotencyKeyForCreate)
	}
	if p.IdempotencyKeyForComplete != "" {
		out.IdempotencyKeyForComplete = key(p.IdempotencyKeyForComplete)
	}
	switch p.State {
	case pb.State_PENDING:
		out.State = promise.Pending
	case pb.State_RESOLVED:
		out.State = promise.Resolved
	case pb.State_REJECTED:
		out.State = promise.Rejected
	case pb.State_REJECTED_CANCELED:
		out.State = promise.Canceled
	case pb.State_REJECTED_TIMEDOUT:
		out.State = promise.Timedout
	}
	return out
}

func mapsEq(a, b map[string]string) bool {
	if len(a) == 0 && len(b) == 0 {
		return true
	}
	if len(a) != len(b) {
		return false
	}
	for k, v := range a {
		if w, ok := b[k]; !ok || w != v {
			return false
		}
	}
	return true
}

type C20Job struct {
	Writer string // http | grpc
	Group  string
	Tier   string
}

func (j *C20Job) Name() string                             { return fmt.Sprintf("C20/%s/%s", j.Writer, j.Group) }
func (j *C20Job) Run(deadline time.Time) *runner.JobResult { return j.RunFrom(0, deadline) }

func (j *C20Job) send(k *Kernel, r *t_api.Request) (int, string) {
	if j.Writer == "grpc" {
		rep := k.F.GRPCSend(GRPCMessage(r))
		if rep.Code == "OK" {
			return 200, ""
		}
		return 400, rep.Code + ": " + rep.Err
	}
	rep := k.F.HTTP(HTTPFor(r, false))
	return rep.Code, string(rep.Body)
}

type c20Case struct {
	sig  string
	desc string
	run  func(k *Kernel, viol func(string, string, ...any), out map[string]bool)
}

func (j *C20Job) cases() []c20Case {
	var cs []c20Case
	far := int64(2000000000000)
	checkPromise := func(k *Kernel, sig string, want *t_api.CreatePromiseRequest, wantValue *promise.Value, pat string, viol func(string, string, ...any)) {
		for phase := 0; phase < 2; phase++ {
			for _, o := range readPromiseEverywhere(k, want.Id, pat) {
				when := o.where
				if phase == 1 {
					when += "(after restart)"
				}
				if o.p == nil {
					viol("C20:"+sig+":unreadable:"+strings.SplitN(o.where, ":", 3)[0], "%s: promise %q written through %s cannot be read back: %s", when, want.Id, j.Writer, o.where)
					continue
				}
				bad := func(f string, got, w any) {
					viol("C20:"+sig+":"+f+":"+strings.SplitN(o.where, "(", 2)[0], "%s: %s of promise %q written through %s reads %q, supplied %q", when, f, want.Id, j.Writer, fmt.Sprint(got), fmt.Sprint(w))
				}
				if o.p.Id != want.Id {
					bad("id", o.p.Id, want.Id)
				}
				if !mapsEq(o.p.Param.Headers, want.Param.Headers) {
					bad("param.headers", o.p.Param.Headers, want.Param.Headers)
				}
				if string(o.p.Param.Data) != string(want.Param.Data) {
					bad("param.data", o.p.Param.Data, want.Param.Data)
				}
				if !mapsEq(o.p.Tags, want.Tags) {
					bad("tags", o.p.Tags, want.Tags)
				}
				if o.p.Timeout != want.Timeout {
					bad("timeout", o.p.Timeout, want.Timeout)
				}
				if ik(o.p.IdempotencyKeyForCreate) != ik(want.IdempotencyKey) {
					bad("idempotencyKeyForCreate", ik(o.p.IdempotencyKeyForCreate), ik(want.IdempotencyKey))
				}
				if wantValue != nil {
					if !mapsEq(o.p.Value.Headers, wantValue.Headers) {
						bad("value.headers", o.p.Value.Headers, wantValue.Headers)
					}
					if string(o.p.Value.Data) != string(wantValue.Data) {
						bad("value.data", o.p.Value.Data, wantValue.Data)
					}
				}
			}
			if phase == 0 {
				if err := k.Restart(); err != nil {
					viol("C20:harness", "restart failed: %v", err)
					return
				}
			}
		}
	}
	accepted := func(code int) bool { return code >= 200 && code < 300 }

	switch j.Group {
	case "promise-id":
		for _, sv := range stringMenu(j.Tier) {
			sv := sv
			cs = append(cs, c20Case{"promise-id:" + sv.name, fmt.Sprintf("promise id %q", trunc(sv.v, 40)), func(k *Kernel, viol func(string, string, ...any), out map[string]bool) {
				req := &t_api.CreatePromiseRequest{Id: sv.v, Timeout: far, Param: promise.Value{Data: []byte("d")}}
				code, body := j.send(k, &t_api.Request{Kind: t_api.CreatePromise, CreatePromise: req})
				out[fmt.Sprint(sv.name, accepted(code))] = true
				if !accepted(code) {
					return // a refused id is C13's business
				}
				_ = body
				checkPromise(k, "promise-id:"+sv.name, req, nil, "*", viol)
				// ids are compared exactly: variants name different resources
				for _, variant := range []string{strings.ToUpper(sv.v), strings.ToLower(sv.v), sv.v + " ", " " + sv.v, strings.TrimSpace(sv.v), strings.ReplaceAll(sv.v, "/", "%2F"), strings.ReplaceAll(sv.v, "%2F", "/"), strings.ReplaceAll(sv.v, "+", " ")} {
					if variant == sv.v || variant == "" {
						continue
					}
					for _, o := range readPromiseEverywhere(k, variant, "") {
						if o.p != nil {
							viol("C20:promise-id:"+sv.name+":variant-resolves:"+o.where, "reading id %q through %s returns the promise created as %q: ids must be compared exactly", variant, o.where, sv.v)
						}
					}
				}
			}})
		}
	case "promise-fields":
		mk := func(name string, mut func(r *t_api.CreatePromiseRequest)) {
			cs = append(cs, c20Case{"promise-fields:" + name, name, func(k *Kernel, viol func(string, string, ...any), out map[string]bool) {
				req := &t_api.CreatePromiseRequest{Id: "p", Timeout: far}
				mut(req)
				code, _ := j.send(k, &t_api.Request{Kind: t_api.CreatePromise, CreatePromise: req})
				out[fmt.Sprint(name, accepted(code))] = true
				if !accepted(code) {
					return
				}
				checkPromise(k, "promise-fields:"+name, req, nil, "p", viol)
			}})
		}
		for _, sv := range stringMenu(j.Tier) {
			sv := sv
			mk("header-value="+sv.name, func(r *t_api.CreatePromiseRequest) { r.Param.Headers = map[string]string{"h": sv.v} })
			mk("header-key="+sv.name, func(r *t_api.CreatePromiseRequest) { r.Param.Headers = map[string]string{sv.v: "v"} })
			mk("tag-value="+sv.name, func(r *t_api.CreatePromiseRequest) { r.Tags = map[string]string{"t": sv.v} })
			mk("tag-key="+sv.name, func(r *t_api.CreatePromiseRequest) { r.Tags = map[string]string{sv.v: "v"} })
			if !(j.Writer == "http" && (sv.name == "space" || sv.name == "newline" || sv.name == "non-ascii" || sv.name == "nul" || sv.name == "rtl")) {
				// over HTTP the key travels in a header: surrounding whitespace is not part of a
				// header value and control / non-ASCII bytes are not representable there
				mk("idempotency-key="+sv.name, func(r *t_api.CreatePromiseRequest) { r.IdempotencyKey = key(sv.v) })
			}
			mk("data="+sv.name, func(r *t_api.CreatePromiseRequest) { r.Param.Data = []byte(sv.v) })
		}
		mk("data=all-bytes", func(r *t_api.CreatePromiseRequest) { r.Param.Data = allBytes() })
		mk("data=empty", func(r *t_api.CreatePromiseRequest) { r.Param.Data = []byte{} })
		mk("data=64k", func(r *t_api.CreatePromiseRequest) { r.Param.Data = []byte(big) })
		mk("maps=empty", func(r *t_api.CreatePromiseRequest) {
			r.Param.Headers, r.Tags = map[string]string{}, map[string]string{}
		})
		mk("maps=three", func(r *t_api.CreatePromiseRequest) {
			r.Param.Headers = map[string]string{"a": "1", "b": "", "": "c"}
			r.Tags = map[string]string{"x": "1", "y": "", "resonate:timeout": "false"}
		})
		for _, to := range []int64{-9223372036854775808, -1, 0, 1, 9223372036854775807} {
			to := to
			mk(fmt.Sprintf("timeout=%d", to), func(r *t_api.CreatePromiseRequest) { r.Timeout = to })
		}
	case "completion":
		for _, sv := range append(stringMenu(j.Tier), sval{"all-bytes", string(allBytes())}, sval{"empty", ""}) {
			sv := sv
			cs = append(cs, c20Case{"completion:" + sv.name, "completion value " + sv.name, func(k *Kernel, viol func(string, string, ...any), out map[string]bool) {
				req := &t_api.CreatePromiseRequest{Id: "p", Timeout: far}
				if code, _ := j.send(k, &t_api.Request{Kind: t_api.CreatePromise, CreatePromise: req}); !accepted(code) {
					return
				}
				val := promise.Value{Headers: map[string]string{sv.v: sv.v}, Data: []byte(sv.v)}
				if sv.v == "" {
					val.Headers = nil
				}
				code, _ := j.send(k, &t_api.Request{Kind: t_api.CompletePromise, CompletePromise: &t_api.CompletePromiseRequest{Id: "p", State: promise.Resolved, IdempotencyKey: key(sv.v), Value: val}})
				out[fmt.Sprint(sv.name, accepted(code))] = true
				if !accepted(code) {
					return
				}
				checkPromise(k, "completion:"+sv.name, req, &val, "p", viol)
			}})
		}
	case "derived-ids":
		for _, sv := range stringMenu(j.Tier) {
			sv := sv
			cs = append(cs, c20Case{"derived-ids:" + sv.name, fmt.Sprintf("ids %q in task / registration / schedule ids", trunc(sv.v, 40)), func(k *Kernel, viol func(string, string, ...any), out map[string]bool) {
				id := sv.v
				// routed promise -> __invoke:<id>; callback -> __resume:<root>:<leaf>; subscription -> __notify:<pid>:<sid>
				if code, _ := j.send(k, &t_api.Request{Kind: t_api.CreatePromise, CreatePromise: &t_api.CreatePromiseRequest{Id: id, Timeout: far, Tags: map[string]string{"resonate:invoke": "poll://g/" + "w"}}}); !accepted(code) {
					out[sv.name+":refused"] = true
					return
				}
				j.send(k, &t_api.Request{Kind: t_api.CreatePromise, CreatePromise: &t_api.CreatePromiseRequest{Id: "leaf", Timeout: far}})
				j.send(k, &t_api.Request{Kind: t_api.CreateCallback, CreateCallback: &t_api.CreateCallbackRequest{Id: "cb", PromiseId: "leaf", RootPromiseId: id, Timeout: far, Recv: json.RawMessage(`"poll://g/w"`)}})
				j.send(k, &t_api.Request{Kind: t_api.CreateSubscription, CreateSubscription: &t_api.CreateSubscriptionRequest{Id: id, PromiseId: "leaf", Timeout: far, Recv: json.RawMessage(`"poll://g/w"`)}})
				j.send(k, &t_api.Request{Kind: t_api.CompletePromise, CompletePromise: &t_api.CompletePromiseRequest{Id: "leaf", State: promise.Resolved}})
				// schedule whose promise id template embeds the schedule id
				j.send(k, &t_api.Request{Kind: t_api.CreateSchedule, CreateSchedule: &t_api.CreateScheduleRequest{Id: id, Cron: "* * * * *", PromiseId: "{{.id}}.{{.timestamp}}", PromiseTimeout: 1000}})
				k.Do(func(w *world.World) {
					w.SetClock(61_000)
					w.Sweep("SchedulePromises")
					d := w.Dump()
					for _, want := range []string{"__invoke:" + id, "__resume:" + id + ":leaf", "__notify:leaf:" + id} {
						if _, ok := d.Tasks[want]; !ok {
							have := []string{}
							for t := range d.Tasks {
								have = append(have, t)
							}
							sort.Strings(have)
							viol("C20:derived-ids:"+sv.name+":task-id:"+strings.SplitN(want, ":", 2)[0], "derived task id %q does not exist: the client id is not embedded unaltered (tasks: %q)", want, have)
						}
					}
					wantP := id + ".60000"
					found := false
					got := []string{}
					for pid, p := range d.Promises {
						if jsonTag(p.Tags, "resonate:schedule") == id {
							got = append(got, pid)
							if pid == wantP {
								found = true
							}
						}
					}
					if _, isSched := d.Schedules[id]; isSched && !found {
						viol("C20:derived-ids:"+sv.name+":scheduled-promise-id", "schedule %q with template {{.id}}.{{.timestamp}} fired promise(s) %q, expected %q: the schedule id is not embedded unaltered", id, got, wantP)
					}
				})
				out[sv.name+":checked"] = true
			}})
		}
	case "schedules-together":
		// the data of one schedule never leaks into the promises of another, and a
		// schedule re-created under its id uses its own template: two schedules fire in ONE
		// sweep; then the first is deleted, re-created with other data and fires again
		cs = append(cs, c20Case{"schedules-together", "two schedules with different promise tags / parameters / id templates firing in one sweep, then delete + re-create", func(k *Kernel, viol func(string, string, ...any), out map[string]bool) {
			mk := func(id, tmpl, tag, data string) *t_api.Request {
				return &t_api.Request{Kind: t_api.CreateSchedule, CreateSchedule: &t_api.CreateScheduleRequest{Id: id, Cron: "* * * * *", PromiseId: tmpl, PromiseTimeout: 1000,
					PromiseParam: promise.Value{Headers: map[string]string{"h": data}, Data: []byte(data)}, PromiseTags: map[string]string{"own": tag, tag: "1"}}}
			}
			check := func(w *world.World, phase, sid, wantPid, tag, data string) {
				d := w.Dump()
				p, ok := d.Promises[wantPid]
				if !ok {
					have := []string{}
					for pid := range d.Promises {
						have = append(have, pid)
					}
					sort.Strings(have)
					viol("C20:schedules-together:"+phase+":promise-id", "%s: schedule %q should have fired promise %q from its own template; promises: %q", phase, sid, wantPid, have)
					return
				}
				tags := map[string]string{}
				_ = json.Unmarshal([]byte(p.Tags), &tags)
				want := map[string]string{"own": tag, tag: "1", "resonate:schedule": sid, "resonate:invocation": "true"}
				if !reflect.DeepEqual(tags, want) {
					viol("C20:schedules-together:"+phase+":promise-tags", "%s: promise %q of schedule %q carries tags %v, the schedule says %v", phase, wantPid, sid, tags, want)
				}
				if p.ParamData != data {
					viol("C20:schedules-together:"+phase+":promise-param", "%s: promise %q of schedule %q carries parameter %q, the schedule says %q", phase, wantPid, sid, p.ParamData, data)
				}
			}
			j.send(k, mk("sa", "a-{{.id}}-{{.timestamp}}", "ta", "da"))
			j.send(k, mk("sb", "b/{{.timestamp}}/{{.id}}", "tb", "db"))
			k.Do(func(w *world.World) {
				w.SetClock(61_000)
				w.Sweep("SchedulePromises")
				check(w, "one-sweep", "sa", "a-sa-60000", "ta", "da")
				check(w, "one-sweep", "sb", "b/60000/sb", "tb", "db")
			})
			j.send(k, &t_api.Request{Kind: t_api.DeleteSchedule, DeleteSchedule: &t_api.DeleteScheduleRequest{Id: "sa"}})
			j.send(k, mk("sa", "again.{{.timestamp}}.{{.id}}", "tc", "dc"))
			k.Do(func(w *world.World) {
				w.SetClock(121_000)
				w.Sweep("SchedulePromises")
				check(w, "re-created", "sa", "again.120000.sa", "tc", "dc")
				check(w, "re-created", "sb", "b/120000/sb", "tb", "db")
			})
			out["checked"] = true
		}})
	case "schedule-fields":
		for _, sv := range stringMenu(j.Tier) {
			sv := sv
			cs = append(cs, c20Case{"schedule-fields:" + sv.name, "schedule fields " + sv.name, func(k *Kernel, viol func(string, string, ...any), out map[string]bool) {
				req := &t_api.CreateScheduleRequest{Id: "s", Description: sv.v, Cron: "* * * * *", Tags: map[string]string{sv.v: sv.v}, PromiseId: "x." + strings.ReplaceAll(sv.v, "{{", "") + ".{{.timestamp}}", PromiseTimeout: 1000,
					PromiseParam: promise.Value{Headers: map[string]string{sv.v: sv.v}, Data: []byte(sv.v)}, PromiseTags: map[string]string{"pt": sv.v}, IdempotencyKey: key(strings.TrimSpace(sv.v))}
				code, _ := j.send(k, &t_api.Request{Kind: t_api.CreateSchedule, CreateSchedule: req})
				out[fmt.Sprint(sv.name, accepted(code))] = true
				if !accepted(code) {
					return
				}
				for phase := 0; phase < 2; phase++ {
					rep := k.F.HTTP(HTTPReq{Method: "GET", Path: "/schedules/s"})
					var s struct {
						Desc, Cron, PromiseId string
						Tags, PromiseTags     map[string]string
						PromiseParam          promise.Value
						IdempotencyKey        string
						PromiseTimeout        int64
					}
					if rep.Code != 200 || json.Unmarshal(rep.Body, &s) != nil {
						viol("C20:schedule-fields:"+sv.name+":unreadable", "schedule written through %s reads %d %s", j.Writer, rep.Code, rep.Body)
						return
					}
					if s.Desc != req.Description || s.PromiseId != req.PromiseId || !mapsEq(s.Tags, req.Tags) || !mapsEq(s.PromiseTags, req.PromiseTags) || !mapsEq(s.PromiseParam.Headers, req.PromiseParam.Headers) || string(s.PromiseParam.Data) != string(req.PromiseParam.Data) || s.IdempotencyKey != ik(req.IdempotencyKey) {
						viol("C20:schedule-fields:"+sv.name+":differs", "schedule written through %s reads back differently: %s", j.Writer, rep.Body)
					}
					g := k.F.GRPCSend(&pb.ReadScheduleRequest{Id: "s"})
					if g.Code != "OK" {
						viol("C20:schedule-fields:"+sv.name+":grpc-unreadable", "schedule reads %s over gRPC", g.Code)
					} else if gs := g.Msg.(*pb.ReadScheduleResponse).Schedule; gs.Description != req.Description || gs.PromiseId != req.PromiseId || !mapsEq(gs.Tags, req.Tags) || !mapsEq(gs.PromiseTags, req.PromiseTags) || string(gs.PromiseParam.GetData()) != string(req.PromiseParam.Data) {
						viol("C20:schedule-fields:"+sv.name+":grpc-differs", "schedule written through %s reads back differently over gRPC: %v", j.Writer, gs)
					}
					if phase == 0 {
						_ = k.Restart()
					}
				}
			}})
		}
	case "receivers":
		recvs := []string{`"poll://g/i"`, `"http://h/p?q=1"`, `"héllo"`, `{"type":"poll","data":{"group":"g","id":"a/b"}}`, `{"type":"http","data":{"url":"http://h/é","headers":{"x":"<>&"}}}`, `{"type":"poll","data":{"group":"gé","id":"✓"}}`}
		for i, rv := range recvs {
			rv := rv
			cs = append(cs, c20Case{fmt.Sprintf("receivers:%d", i), "receiver " + rv, func(k *Kernel, viol func(string, string, ...any), out map[string]bool) {
				j.send(k, &t_api.Request{Kind: t_api.CreatePromise, CreatePromise: &t_api.CreatePromiseRequest{Id: "r", Timeout: far}})
				j.send(k, &t_api.Request{Kind: t_api.CreatePromise, CreatePromise: &t_api.CreatePromiseRequest{Id: "p", Timeout: far}})
				code, _ := j.send(k, &t_api.Request{Kind: t_api.CreateCallback, CreateCallback: &t_api.CreateCallbackRequest{Id: "cb", PromiseId: "p", RootPromiseId: "r", Timeout: far, Recv: json.RawMessage(rv)}})
				out[fmt.Sprint(i, accepted(code))] = true
				if !accepted(code) {
					return
				}
				j.send(k, &t_api.Request{Kind: t_api.CompletePromise, CompletePromise: &t_api.CompletePromiseRequest{Id: "p", State: promise.Resolved}})
				k.Do(func(w *world.World) {
					t := w.Dump().Tasks["__resume:r:p"]
					if t == nil {
						viol(fmt.Sprintf("C20:receivers:%d:no-task", i), "registration with receiver %s produced no task", rv)
						return
					}
					var a, b any
					_ = json.Unmarshal([]byte(t.Recv), &a)
					_ = json.Unmarshal([]byte(rv), &b)
					ja, _ := json.Marshal(a)
					jb, _ := json.Marshal(b)
					if string(ja) != string(jb) {
						viol(fmt.Sprintf("C20:receivers:%d:differs", i), "receiver supplied as %s is stored as %s", rv, t.Recv)
					}
				})
			}})
		}
	case "locks-and-tasks":
		for _, sv := range stringMenu(j.Tier) {
			sv := sv
			cs = append(cs, c20Case{"locks:" + sv.name, "lock ids " + sv.name, func(k *Kernel, viol func(string, string, ...any), out map[string]bool) {
				code, _ := j.send(k, &t_api.Request{Kind: t_api.AcquireLock, AcquireLock: &t_api.AcquireLockRequest{ResourceId: sv.v, ExecutionId: sv.v, ProcessId: sv.v, Ttl: 1000000}})
				out[fmt.Sprint(sv.name, accepted(code))] = true
				if !accepted(code) {
					return
				}
				k.Do(func(w *world.World) {
					l := w.Dump().Locks[sv.v]
					if l == nil || l.ExecutionId != sv.v || l.ProcessId != sv.v {
						viol("C20:locks:"+sv.name+":differs", "lock %q stored as %v", sv.v, l)
					}
				})
				for _, variant := range []string{strings.ToUpper(sv.v), sv.v + " ", strings.TrimSpace(sv.v)} {
					if variant == sv.v || variant == "" {
						continue
					}
					if code, _ := j.send(k, &t_api.Request{Kind: t_api.ReleaseLock, ReleaseLock: &t_api.ReleaseLockRequest{ResourceId: sv.v, ExecutionId: variant}}); accepted(code) {
						viol("C20:locks:"+sv.name+":variant-releases", "execution id %q released the lock of execution %q", variant, sv.v)
					}
				}
				if code, _ := j.send(k, &t_api.Request{Kind: t_api.ReleaseLock, ReleaseLock: &t_api.ReleaseLockRequest{ResourceId: sv.v, ExecutionId: sv.v}}); !accepted(code) {
					viol("C20:locks:"+sv.name+":exact-id-not-found", "the exact ids %q could not release their own lock", sv.v)
				}
			}})
		}
	}
	return cs
}

func jsonTag(tags string, k string) string {
	m := map[string]string{}
	_ = json.Unmarshal([]byte(tags), &m)
	return m[k]
}

func (j *C20Job) RunFrom(start int, deadline time.Time) *runner.JobResult {
	res := &runner.JobResult{Name: j.Name(), Counters: map[string]int64{}}
	cs := j.cases()
	out := map[string]bool{}
	viol := func(sig, format string, a ...any) {
		for _, v := range res.Violations {
			if v.Sig == sig {
				return
			}
		}
		res.Violations = append(res.Violations, runner.Violation{Sig: sig, Msg: fmt.Sprintf(format, a...), Job: j.Name(), Replay: map[string]any{"job": j.Name(), "sig": sig}})
	}
	for i := start; i < len(cs); i++ {
		if !deadline.IsZero() && time.Now().After(deadline) {
			res.Capped = true
			break
		}
		c := cs[i]
		runner.TraceItem(j.Name(), i, "C20:"+j.Writer+":"+c.sig, c.desc)
		res.Executions++
		k, err := NewKernel(world.DefaultConfig(), nil)
		if err != nil {
			res.HarnessErr = err.Error()
			return res
		}
		c.run(k, viol, out)
		k.Do(func(w *world.World) {
			for _, v := range w.Viol {
				viol("C20:"+c.sig+":"+v.Sig, "%s", v.Msg)
			}
		})
		k.Close()
	}
	for o := range out {
		res.Outcomes = append(res.Outcomes, o)
	}
	sort.Strings(res.Outcomes)
	res.States, res.Transitions = int64(len(cs)), res.Executions
	if len(cs) > 0 {
		res.Samples = []any{map[string]any{"writer": j.Writer, "case": cs[len(cs)/2].desc}}
	}
	return res
}

func init() {
	Specs["C20"] = func() *runner.Spec {
		return &runner.Spec{
			Property: "C20", Engine: "inputx", Level: "model_checking",
			Jobs: func(tier string) []runner.Job {
				var jobs []runner.Job
				for _, w := range []string{"http", "grpc"} {
					for _, g := range []string{"promise-id", "promise-fields", "completion", "derived-ids", "schedules-together", "schedule-fields", "receivers", "locks-and-tasks"} {
						jobs = append(jobs, &C20Job{Writer: w, Group: g, Tier: tier})
					}
				}
				return jobs
			},
			Rule:   "every client-supplied field (promise id, parameter and value headers / data, tag keys and values, idempotency keys, timeouts over the 64-bit range, schedule description / tags / promise id template / promise param and tags, receiver descriptions, lock and execution ids) x content menu {ASCII, slashes, separators : ? # % _ *, markup and quotes, leading/trailing space, mixed case, non-ASCII, percent-escapes, backslashes, control characters, JSON and template look-alikes, all 256 byte values, 64 KiB (+NUL, bidi in thorough)} written through HTTP or gRPC on the real front ends and kernel, read back through read and search over BOTH protocols, through the stored rows of derived tasks and fired schedule promises, before and after a restart; id variants (case, whitespace, escaping) must name different resources; distinct = (case, accepted?) pairs",
			Assume: []string{"absent and empty are equivalent; a refused value is C13's business, an accepted one must round-trip"},
			QuickS: 120, ThoroughS: 600,
		}
	}
}
