package inputx

import (
	"encoding/json"
	"fmt"
	"net/url"
	"sort"
	"strings"

	"github.com/resonatehq/resonate/internal/app/subsystems/api/grpc/pb"
	"github.com/resonatehq/resonate/internal/kernel/t_api"
	"github.com/resonatehq/resonate/pkg/idempotency"
	"github.com/resonatehq/resonate/pkg/promise"
	"google.golang.org/grpc/status"
)

// The logical form of a request is the t_api.Request the kernel should receive.
// HTTPFor / GRPCDo express it in the two wire protocols.

func ik(k *idempotency.Key) string {
	if k == nil {
		return ""
	}
	return string(*k)
}

func valueJSON(v promise.Value) map[string]any {
	m := map[string]any{}
	if v.Headers != nil {
		m["headers"] = v.Headers
	}
	if v.Data != nil {
		m["data"] = v.Data // []byte marshals as base64, which is what the server expects
	}
	return m
}

func stateName(s promise.State) string { return s.String() }

func promiseBody(q *t_api.CreatePromiseRequest) map[string]any {
	b := map[string]any{"id": q.Id, "timeout": q.Timeout, "param": valueJSON(q.Param)}
	if q.Tags != nil {
		b["tags"] = q.Tags
	}
	return b
}

func hdrs(k *idempotency.Key, strict bool) map[string]string {
	h := map[string]string{}
	if k != nil {
		h["idempotency-key"] = string(*k)
	}
	if strict {
		h["strict"] = "true"
	}
	return h
}

func mustJSON(v any) []byte {
	b, err := json.Marshal(v)
	if err != nil {
		panic(err)
	}
	return b
}

func tagQuery(q url.Values, tags map[string]string) {
	ks := make([]string, 0, len(tags))
	for k := range tags {
		ks = append(ks, k)
	}
	sort.Strings(ks)
	for _, k := range ks {
		q.Set("tags["+k+"]", tags[k])
	}
}

// HTTPFor renders the request over HTTP. getForm selects the GET variants of the
// task links where they exist.
func HTTPFor(r *t_api.Request, getForm bool) HTTPReq {
	switch r.Kind {
	case t_api.ReadPromise:
		return HTTPReq{Method: "GET", Path: "/promises/" + esc(r.ReadPromise.Id)}
	case t_api.SearchPromises:
		q := url.Values{}
		s := r.SearchPromises
		q.Set("id", s.Id)
		if st := searchStateName(s.States); st != "" {
			q.Set("state", st)
		}
		tagQuery(q, s.Tags)
		if s.Limit != 0 {
			q.Set("limit", fmt.Sprint(s.Limit))
		}
		return HTTPReq{Method: "GET", Path: "/promises?" + q.Encode()}
	case t_api.CreatePromise:
		q := r.CreatePromise
		return HTTPReq{Method: "POST", Path: "/promises", Headers: hdrs(q.IdempotencyKey, q.Strict), Body: mustJSON(promiseBody(q))}
	case t_api.CreatePromiseAndTask:
		q := r.CreatePromiseAndTask
		return HTTPReq{Method: "POST", Path: "/promises/task", Headers: hdrs(q.Promise.IdempotencyKey, q.Promise.Strict),
			Body: mustJSON(map[string]any{"promise": promiseBody(q.Promise), "task": map[string]any{"processId": q.Task.ProcessId, "ttl": q.Task.Ttl}})}
	case t_api.CompletePromise:
		q := r.CompletePromise
		return HTTPReq{Method: "PATCH", Path: "/promises/" + esc(q.Id), Headers: hdrs(q.IdempotencyKey, q.Strict),
			Body: mustJSON(map[string]any{"state": stateName(q.State), "value": valueJSON(q.Value)})}
	case t_api.CreateCallback:
		q := r.CreateCallback
		return HTTPReq{Method: "POST", Path: "/callbacks", Body: mustJSON(map[string]any{"id": q.Id, "promiseId": q.PromiseId, "rootPromiseId": q.RootPromiseId, "timeout": q.Timeout, "recv": json.RawMessage(q.Recv)})}
	case t_api.CreateSubscription:
		q := r.CreateSubscription
		return HTTPReq{Method: "POST", Path: "/subscriptions", Body: mustJSON(map[string]any{"id": q.Id, "promiseId": q.PromiseId, "timeout": q.Timeout, "recv": json.RawMessage(q.Recv)})}
	case t_api.ReadSchedule:
		return HTTPReq{Method: "GET", Path: "/schedules/" + esc(r.ReadSchedule.Id)}
	case t_api.SearchSchedules:
		q := url.Values{}
		q.Set("id", r.SearchSchedules.Id)
		tagQuery(q, r.SearchSchedules.Tags)
		if r.SearchSchedules.Limit != 0 {
			q.Set("limit", fmt.Sprint(r.SearchSchedules.Limit))
		}
		return HTTPReq{Method: "GET", Path: "/schedules?" + q.Encode()}
	case t_api.CreateSchedule:
		q := r.CreateSchedule
		b := map[string]any{"id": q.Id, "desc": q.Description, "cron": q.Cron, "promiseId": q.PromiseId, "promiseTimeout": q.PromiseTimeout, "promiseParam": valueJSON(q.PromiseParam)}
		if q.Tags != nil {
			b["tags"] = q.Tags
		}
		if q.PromiseTags != nil {
			b["promiseTags"] = q.PromiseTags
		}
		return HTTPReq{Method: "POST", Path: "/schedules", Headers: hdrs(q.IdempotencyKey, false), Body: mustJSON(b)}
	case t_api.DeleteSchedule:
		return HTTPReq{Method: "DELETE", Path: "/schedules/" + esc(r.DeleteSchedule.Id)}
	case t_api.AcquireLock:
		q := r.AcquireLock
		return HTTPReq{Method: "POST", Path: "/locks/acquire", Body: mustJSON(map[string]any{"resourceId": q.ResourceId, "executionId": q.ExecutionId, "processId": q.ProcessId, "ttl": q.Ttl})}
	case t_api.ReleaseLock:
		q := r.ReleaseLock
		return HTTPReq{Method: "POST", Path: "/locks/release", Body: mustJSON(map[string]any{"resourceId": q.ResourceId, "executionId": q.ExecutionId})}
	case t_api.HeartbeatLocks:
		return HTTPReq{Method: "POST", Path: "/locks/heartbeat", Body: mustJSON(map[string]any{"processId": r.HeartbeatLocks.ProcessId})}
	case t_api.ClaimTask:
		q := r.ClaimTask
		if getForm {
			return HTTPReq{Method: "GET", Path: fmt.Sprintf("/tasks/claim/%s/%d", url.PathEscape(q.Id), q.Counter)}
		}
		return HTTPReq{Method: "POST", Path: "/tasks/claim", Body: mustJSON(map[string]any{"id": q.Id, "counter": q.Counter, "processId": q.ProcessId, "ttl": q.Ttl})}
	case t_api.CompleteTask:
		q := r.CompleteTask
		if getForm {
			return HTTPReq{Method: "GET", Path: fmt.Sprintf("/tasks/complete/%s/%d", url.PathEscape(q.Id), q.Counter)}
		}
		return HTTPReq{Method: "POST", Path: "/tasks/complete", Body: mustJSON(map[string]any{"id": q.Id, "counter": q.Counter})}
	case t_api.HeartbeatTasks:
		if getForm {
			return HTTPReq{Method: "GET", Path: "/tasks/heartbeat/" + url.PathEscape("t") + "/1"}
		}
		return HTTPReq{Method: "POST", Path: "/tasks/heartbeat", Body: mustJSON(map[string]any{"processId": r.HeartbeatTasks.ProcessId})}
	}
	panic("no http form for " + r.Kind.String())
}

func searchStateName(states []promise.State) string {
	has := map[promise.State]bool{}
	for _, s := range states {
		has[s] = true
	}
	switch {
	case len(states) == 5 || len(states) == 0:
		return ""
	case len(states) == 1 && has[promise.Pending]:
		return "pending"
	case len(states) == 1 && has[promise.Resolved]:
		return "resolved"
	default:
		return "rejected"
	}
}

func pbValue(v promise.Value) *pb.Value { return &pb.Value{Headers: v.Headers, Data: v.Data} }

func pbRecv(raw json.RawMessage) *pb.Recv {
	var s string
	if json.Unmarshal(raw, &s) == nil {
		return &pb.Recv{Recv: &pb.Recv_Logical{Logical: s}}
	}
	var p struct {
		Type string          `json:"type"`
		Data json.RawMessage `json:"data"`
	}
	if json.Unmarshal(raw, &p) == nil {
		return &pb.Recv{Recv: &pb.Recv_Physical{Physical: &pb.PhysicalRecv{Type: p.Type, Data: p.Data}}}
	}
	return nil
}

func pbCreate(q *t_api.CreatePromiseRequest) *pb.CreatePromiseRequest {
	return &pb.CreatePromiseRequest{Id: q.Id, IdempotencyKey: ik(q.IdempotencyKey), Strict: q.Strict, Param: pbValue(q.Param), Timeout: q.Timeout, Tags: q.Tags}
}

func pbSearchState(states []promise.State) pb.SearchState {
	switch searchStateName(states) {
	case "pending":
		return pb.SearchState_SEARCH_PENDING
	case "resolved":
		return pb.SearchState_SEARCH_RESOLVED
	case "rejected":
		return pb.SearchState_SEARCH_REJECTED
	}
	return pb.SearchState_SEARCH_ALL
}

type GRPCReply struct {
	Msg  any
	Code string // "OK" or the gRPC status code name
	Err  string
}

// GRPCMessage builds the protobuf request message of the logical request.
func GRPCMessage(r *t_api.Request) any {
	switch r.Kind {
	case t_api.ReadPromise:
		return &pb.ReadPromiseRequest{Id: r.ReadPromise.Id}
	case t_api.SearchPromises:
		s := r.SearchPromises
		return &pb.SearchPromisesRequest{Id: s.Id, State: pbSearchState(s.States), Tags: s.Tags, Limit: int32(s.Limit)}
	case t_api.CreatePromise:
		return pbCreate(r.CreatePromise)
	case t_api.CreatePromiseAndTask:
		q := r.CreatePromiseAndTask
		return &pb.CreatePromiseAndTaskRequest{Promise: pbCreate(q.Promise), Task: &pb.CreatePromiseTaskRequest{ProcessId: q.Task.ProcessId, Ttl: int32(q.Task.Ttl)}}
	case t_api.CompletePromise:
		q := r.CompletePromise
		switch q.State {
		case promise.Resolved:
			return &pb.ResolvePromiseRequest{Id: q.Id, IdempotencyKey: ik(q.IdempotencyKey), Strict: q.Strict, Value: pbValue(q.Value)}
		case promise.Rejected:
			return &pb.RejectPromiseRequest{Id: q.Id, IdempotencyKey: ik(q.IdempotencyKey), Strict: q.Strict, Value: pbValue(q.Value)}
		default:
			return &pb.CancelPromiseRequest{Id: q.Id, IdempotencyKey: ik(q.IdempotencyKey), Strict: q.Strict, Value: pbValue(q.Value)}
		}
	case t_api.CreateCallback:
		q := r.CreateCallback
		return &pb.CreateCallbackRequest{Id: q.Id, PromiseId: q.PromiseId, RootPromiseId: q.RootPromiseId, Timeout: q.Timeout, Recv: pbRecv(q.Recv)}
	case t_api.CreateSubscription:
		q := r.CreateSubscription
		return &pb.CreateSubscriptionRequest{Id: q.Id, PromiseId: q.PromiseId, Timeout: q.Timeout, Recv: pbRecv(q.Recv)}
	case t_api.ReadSchedule:
		return &pb.ReadScheduleRequest{Id: r.ReadSchedule.Id}
	case t_api.SearchSchedules:
		return &pb.SearchSchedulesRequest{Id: r.SearchSchedules.Id, Tags: r.SearchSchedules.Tags, Limit: int32(r.SearchSchedules.Limit)}
	case t_api.CreateSchedule:
		q := r.CreateSchedule
		return &pb.CreateScheduleRequest{Id: q.Id, Description: q.Description, Cron: q.Cron, Tags: q.Tags, PromiseId: q.PromiseId, PromiseTimeout: q.PromiseTimeout, PromiseParam: pbValue(q.PromiseParam), PromiseTags: q.PromiseTags, IdempotencyKey: ik(q.IdempotencyKey)}
	case t_api.DeleteSchedule:
		return &pb.DeleteScheduleRequest{Id: r.DeleteSchedule.Id}
	case t_api.AcquireLock:
		q := r.AcquireLock
		return &pb.AcquireLockRequest{ResourceId: q.ResourceId, ExecutionId: q.ExecutionId, ProcessId: q.ProcessId, Ttl: q.Ttl}
	case t_api.ReleaseLock:
		return &pb.ReleaseLockRequest{ResourceId: r.ReleaseLock.ResourceId, ExecutionId: r.ReleaseLock.ExecutionId}
	case t_api.HeartbeatLocks:
		return &pb.HeartbeatLocksRequest{ProcessId: r.HeartbeatLocks.ProcessId}
	case t_api.ClaimTask:
		q := r.ClaimTask
		return &pb.ClaimTaskRequest{Id: q.Id, Counter: int32(q.Counter), ProcessId: q.ProcessId, Ttl: int32(q.Ttl)}
	case t_api.CompleteTask:
		return &pb.CompleteTaskRequest{Id: r.CompleteTask.Id, Counter: int32(r.CompleteTask.Counter)}
	case t_api.HeartbeatTasks:
		return &pb.HeartbeatTasksRequest{ProcessId: r.HeartbeatTasks.ProcessId}
	}
	panic("no grpc form for " + r.Kind.String())
}

// GRPCSend sends a protobuf request message to the RPC it belongs to.
func (f *Front) GRPCSend(m any) *GRPCReply {
	c, cancel := ctx()
	defer cancel()
	var out any
	var err error
	switch q := m.(type) {
	case *pb.ReadPromiseRequest:
		out, err = f.P.ReadPromise(c, q)
	case *pb.SearchPromisesRequest:
		out, err = f.P.SearchPromises(c, q)
	case *pb.CreatePromiseRequest:
		out, err = f.P.CreatePromise(c, q)
	case *pb.CreatePromiseAndTaskRequest:
		out, err = f.P.CreatePromiseAndTask(c, q)
	case *pb.ResolvePromiseRequest:
		out, err = f.P.ResolvePromise(c, q)
	case *pb.RejectPromiseRequest:
		out, err = f.P.RejectPromise(c, q)
	case *pb.CancelPromiseRequest:
		out, err = f.P.CancelPromise(c, q)
	case *pb.CreateCallbackRequest:
		out, err = f.CB.CreateCallback(c, q)
	case *pb.CreateSubscriptionRequest:
		out, err = f.SU.CreateSubscription(c, q)
	case *pb.ReadScheduleRequest:
		out, err = f.SC.ReadSchedule(c, q)
	case *pb.SearchSchedulesRequest:
		out, err = f.SC.SearchSchedules(c, q)
	case *pb.CreateScheduleRequest:
		out, err = f.SC.CreateSchedule(c, q)
	case *pb.DeleteScheduleRequest:
		out, err = f.SC.DeleteSchedule(c, q)
	case *pb.AcquireLockRequest:
		out, err = f.L.AcquireLock(c, q)
	case *pb.ReleaseLockRequest:
		out, err = f.L.ReleaseLock(c, q)
	case *pb.HeartbeatLocksRequest:
		out, err = f.L.HeartbeatLocks(c, q)
	case *pb.ClaimTaskRequest:
		out, err = f.T.ClaimTask(c, q)
	case *pb.CompleteTaskRequest:
		out, err = f.T.CompleteTask(c, q)
	case *pb.HeartbeatTasksRequest:
		out, err = f.T.HeartbeatTasks(c, q)
	default:
		panic(fmt.Sprintf("GRPCSend: unknown message %T", m))
	}
	if err != nil {
		st, _ := status.FromError(err)
		return &GRPCReply{Code: st.Code().String(), Err: st.Message()}
	}
	return &GRPCReply{Msg: out, Code: "OK"}
}

func key(s string) *idempotency.Key {
	if s == "" {
		return nil
	}
	k := idempotency.Key(s)
	return &k
}

// BaseRequests: one well-formed request per operation (logical form).
func BaseRequests() []*t_api.Request {
	val := promise.Value{Headers: map[string]string{"h": "1"}, Data: []byte("data")}
	recv := json.RawMessage(`{"type":"poll","data":{"group":"g","id":"i"}}`)
	return []*t_api.Request{
		{Kind: t_api.ReadPromise, ReadPromise: &t_api.ReadPromiseRequest{Id: "p"}},
		{Kind: t_api.SearchPromises, SearchPromises: &t_api.SearchPromisesRequest{Id: "*", States: []promise.State{promise.Pending}, Tags: map[string]string{"k": "v"}, Limit: 10}},
		{Kind: t_api.CreatePromise, CreatePromise: &t_api.CreatePromiseRequest{Id: "p", IdempotencyKey: key("ik"), Strict: true, Param: val, Timeout: 2000000000000, Tags: map[string]string{"k": "v"}}},
		{Kind: t_api.CreatePromiseAndTask, CreatePromiseAndTask: &t_api.CreatePromiseAndTaskRequest{
			Promise: &t_api.CreatePromiseRequest{Id: "pt", IdempotencyKey: key("ik"), Param: val, Timeout: 2000000000000, Tags: map[string]string{"resonate:invoke": "poll://g/i"}},
			Task:    &t_api.CreateTaskRequest{PromiseId: "pt", ProcessId: "w", Ttl: 1000, Timeout: 2000000000000}}},
		{Kind: t_api.CompletePromise, CompletePromise: &t_api.CompletePromiseRequest{Id: "p", IdempotencyKey: key("ik2"), Strict: false, State: promise.Resolved, Value: val}},
		{Kind: t_api.CompletePromise, CompletePromise: &t_api.CompletePromiseRequest{Id: "p", State: promise.Rejected, Value: val}},
		{Kind: t_api.CompletePromise, CompletePromise: &t_api.CompletePromiseRequest{Id: "p", State: promise.Canceled, Strict: true}},
		{Kind: t_api.CreateCallback, CreateCallback: &t_api.CreateCallbackRequest{Id: "cb", PromiseId: "p", RootPromiseId: "r", Timeout: 2000000000000, Recv: recv}},
		{Kind: t_api.CreateSubscription, CreateSubscription: &t_api.CreateSubscriptionRequest{Id: "s1", PromiseId: "p", Timeout: 2000000000000, Recv: json.RawMessage(`"poll://g/i"`)}},
		{Kind: t_api.ReadSchedule, ReadSchedule: &t_api.ReadScheduleRequest{Id: "s"}},
		{Kind: t_api.SearchSchedules, SearchSchedules: &t_api.SearchSchedulesRequest{Id: "*", Tags: map[string]string{"k": "v"}, Limit: 10}},
		{Kind: t_api.CreateSchedule, CreateSchedule: &t_api.CreateScheduleRequest{Id: "s", Description: "d", Cron: "* * * * *", Tags: map[string]string{"k": "v"}, PromiseId: "s.{{.timestamp}}", PromiseTimeout: 1000, PromiseParam: val, PromiseTags: map[string]string{"pk": "pv"}, IdempotencyKey: key("ik")}},
		{Kind: t_api.DeleteSchedule, DeleteSchedule: &t_api.DeleteScheduleRequest{Id: "s"}},
		{Kind: t_api.AcquireLock, AcquireLock: &t_api.AcquireLockRequest{ResourceId: "r1", ExecutionId: "e1", ProcessId: "p1", Ttl: 1000}},
		{Kind: t_api.ReleaseLock, ReleaseLock: &t_api.ReleaseLockRequest{ResourceId: "r1", ExecutionId: "e1"}},
		{Kind: t_api.HeartbeatLocks, HeartbeatLocks: &t_api.HeartbeatLocksRequest{ProcessId: "p1"}},
		{Kind: t_api.ClaimTask, ClaimTask: &t_api.ClaimTaskRequest{Id: "__invoke:pt", Counter: 1, ProcessId: "w", Ttl: 1000}},
		{Kind: t_api.CompleteTask, CompleteTask: &t_api.CompleteTaskRequest{Id: "__invoke:pt", Counter: 1}},
		{Kind: t_api.HeartbeatTasks, HeartbeatTasks: &t_api.HeartbeatTasksRequest{ProcessId: "w"}},
	}
}

func kindLabel(r *t_api.Request) string {
	if r.Kind == t_api.CompletePromise {
		return "CompletePromise(" + strings.ToLower(r.CompletePromise.State.String()) + ")"
	}
	return r.Kind.String()
}
