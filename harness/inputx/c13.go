package inputx

import (
	"encoding/json"
	"fmt"
	"os"
	"sort"
	"strings"
	"time"

	"github.com/resonatehq/resonate/internal/kernel/t_api"
	"github.com/resonatehq/resonate/internal/verif/runner"
	"github.com/resonatehq/resonate/internal/verif/world"
	"github.com/resonatehq/resonate/pkg/promise"
	"google.golang.org/protobuf/proto"
	"google.golang.org/protobuf/reflect/protoreflect"
)

// ---------------------------------------------------------------------------
// C13 — no client input crashes, wedges or poisons the server
// ---------------------------------------------------------------------------

var debugItems = os.Getenv("VERIF_DEBUG_ITEMS") != ""

type jval struct {
	name string
	v    any  // JSON value
	del  bool // remove the field
}

var big = strings.Repeat("A", 64<<10)

func jsonMenu(tier string) []jval {
	m := []jval{
		{"absent", nil, true}, {"null", nil, false}, {"empty-string", "", false}, {"string", "x", false},
		{"zero", 0, false}, {"minus-one", -1, false}, {"max-int64", json.Number("9223372036854775807"), false}, {"min-int64", json.Number("-9223372036854775808"), false},
		{"float", 1.5, false}, {"true", true, false}, {"array", []any{}, false}, {"object", map[string]any{}, false},
		{"tmpl-open", "{{", false}, {"tmpl-field", "{{.x}}", false}, {"tmpl-call", `{{template "x"}}`, false},
		{"str-null", "null", false}, {"str-true", "true", false}, {"str-1", "1", false}, {"str-quoted", `"s"`, false}, {"str-array", "[]", false}, {"str-object", "{}", false},
		{"slash", "a/b", false}, {"blank", " ", false}, {"nbsp", "\u00a0", false}, {"trailing-slash", "a/", false}, {"seps", ":?#%_*", false}, {"markup", `<>&"'`, false}, {"non-ascii", "é✓", false}, {"nul", "a\x00b", false},
		{"recv-obj-null-data", map[string]any{"type": "poll", "data": nil}, false},
		{"recv-obj-no-type", map[string]any{"data": map[string]any{}}, false},
		{"recv-str-json-null-data", `{"type":"poll","data":null}`, false},
		{"recv-str-http-null", `{"type":"http","data":null}`, false},
	}
	if tier == "thorough" {
		m = append(m, jval{"huge-64k", big, false}, jval{"big-float", json.Number("1e400"), false}, jval{"nested", map[string]any{"a": map[string]any{"b": []any{1, "x", nil}}}, false})
	} else {
		m = append(m, jval{"huge-64k", big, false})
	}
	return m
}

type hostile struct {
	proto  string
	sigKey string // endpoint + field + value class
	desc   string
	http   *HTTPReq
	grpc   any
}

// leaf paths of a JSON object (maps are descended, map keys of free-form maps too)
func paths(v any, prefix []string, out *[][]string) {
	if m, ok := v.(map[string]any); ok && len(m) > 0 {
		ks := make([]string, 0, len(m))
		for k := range m {
			ks = append(ks, k)
		}
		sort.Strings(ks)
		for _, k := range ks {
			p := append(append([]string{}, prefix...), k)
			*out = append(*out, p)
			paths(m[k], p, out)
		}
	}
}

func setPath(root map[string]any, path []string, jv jval) map[string]any {
	b, _ := json.Marshal(root)
	var cp map[string]any
	dec := json.NewDecoder(strings.NewReader(string(b)))
	dec.UseNumber()
	_ = dec.Decode(&cp)
	cur := cp
	for i, k := range path {
		if i == len(path)-1 {
			if jv.del {
				delete(cur, k)
			} else {
				cur[k] = jv.v
			}
			break
		}
		nxt, ok := cur[k].(map[string]any)
		if !ok {
			break
		}
		cur = nxt
	}
	return cp
}

func httpInputs(base *t_api.Request, tier string) []hostile {
	var out []hostile
	for _, get := range []bool{false, true} {
		if get && !(base.Kind == t_api.ClaimTask || base.Kind == t_api.CompleteTask || base.Kind == t_api.HeartbeatTasks) {
			continue
		}
		req := HTTPFor(base, get)
		ep := req.Method + " " + strings.SplitN(strings.SplitN(req.Path, "?", 2)[0], "/", 3)[1]
		if get {
			ep += "(get)"
		}
		ep = kindLabel(base) + ":" + ep
		add := func(field, class string, r HTTPReq) {
			rr := r
			out = append(out, hostile{proto: "http", sigKey: fmt.Sprintf("%s:%s=%s", ep, field, class), desc: rr.String(), http: &rr})
		}
		if req.Body != nil {
			var body map[string]any
			dec := json.NewDecoder(strings.NewReader(string(req.Body)))
			dec.UseNumber()
			_ = dec.Decode(&body)
			var ps [][]string
			paths(body, nil, &ps)
			for _, p := range ps {
				for _, jv := range jsonMenu(tier) {
					r := req
					r.Body = mustJSON(setPath(body, p, jv))
					add(strings.Join(p, "."), jv.name, r)
				}
			}
			// tags / headers maps: hostile entries under the routing and time-out tags
			for _, mk := range []string{"tags", "promiseTags"} {
				holder := body
				if pb, ok := body["promise"].(map[string]any); ok && mk == "tags" {
					holder = pb
				}
				if _, ok := holder[mk]; !ok && !(mk == "tags" && (base.Kind == t_api.CreatePromise || base.Kind == t_api.CreatePromiseAndTask)) {
					continue
				}
				for _, tk := range []string{"resonate:invoke", "resonate:timeout", "", "a.b", "$"} {
					for _, jv := range jsonMenu(tier) {
						if jv.del {
							continue
						}
						path := []string{mk, tk}
						if _, ok := body["promise"].(map[string]any); ok && mk == "tags" {
							path = []string{"promise", mk, tk}
						}
						b2 := setPath(body, path[:len(path)-1], jval{v: map[string]any{tk: jv.v}})
						r := req
						r.Body = mustJSON(b2)
						add(mk+"["+tk+"]", jv.name, r)
					}
				}
			}
			for _, raw := range []struct{ n, b string }{{"body-null", "null"}, {"body-array", "[]"}, {"body-string", `"x"`}, {"body-truncated", "{"}, {"body-empty", ""}, {"body-number", "1"}} {
				r := req
				r.Body = []byte(raw.b)
				add("body", raw.n, r)
			}
		}
		for _, hk := range []string{"idempotency-key", "strict", "request-id"} {
			for _, hv := range []string{"", "x", "maybe", "{{", "null", "é", " ", "\t", "\u00a0", "\u0085", "a b", strings.Repeat("k", 4096)} {
				r := req
				r.Headers = map[string]string{}
				for k, v := range req.Headers {
					r.Headers[k] = v
				}
				r.Headers[hk] = hv
				add("header:"+hk, fmt.Sprintf("%q", trunc(hv, 12)), r)
			}
		}
		if i := strings.Index(req.Path, "?"); i < 0 && (req.Method == "GET" || req.Method == "PATCH" || req.Method == "DELETE") {
			// id in the path
			prefix := req.Path[:strings.LastIndex(req.Path[:len(req.Path)-1], "/")+1]
			if get {
				prefix = req.Path[:strings.Index(req.Path[1:], "/")+2]
				prefix = "/tasks/" + strings.Split(req.Path, "/")[2] + "/"
			}
			for _, id := range []string{"", "%00", "a%2Fb", "..%2F..", "%7B%7B", "null", "*", "%25", "a/b/c", "1/x", "x/-1", "x/99999999999999999999", "x/1/2"} {
				r := req
				r.Path = prefix + id
				add("path-id", id, r)
			}
		} else if i >= 0 {
			basePath := req.Path[:i]
			for name, tok := range forgedCursors() {
				r := req
				r.Path = basePath + "?cursor=" + tok
				add("query", "cursor:"+name, r)
			}
			for _, q := range []string{"", "id=", "id=*&limit=-1", "id=*&limit=101", "id=*&limit=abc", "id=*&state=bogus", "id=*&cursor=garbage", "id=*&cursor=" + forgedCursor(), "cursor=" + forgedCursor(), "id=%25&tags[]=x", "id=*&tags[resonate:invoke]=null", "id=%00", "id=" + strings.Repeat("a", 70000)} {
				r := req
				r.Path = basePath + "?" + q
				add("query", trunc(q, 40), r)
			}
		}
	}
	return out
}

func trunc(s string, n int) string {
	if len(s) > n {
		return s[:n] + "…"
	}
	return s
}

// a cursor with a VALID signature (the signing key is a constant in the code) over empty claims
func forgedCursor() string {
	c := &t_api.Cursor[t_api.SearchPromisesRequest]{Next: nil}
	s, _ := c.Encode()
	return s
}

// validly signed cursors whose CONTENT is hostile (any client can mint them)
func forgedCursors() map[string]string {
	out := map[string]string{}
	sid := int64(-5)
	enc := func(name string, c interface{ Encode() (string, error) }) {
		s, _ := c.Encode()
		out[name] = s
	}
	enc("empty-id", &t_api.Cursor[t_api.SearchPromisesRequest]{Next: &t_api.SearchPromisesRequest{Id: "", States: []promise.State{promise.Pending}, Tags: map[string]string{}, Limit: 1}})
	enc("nil-states", &t_api.Cursor[t_api.SearchPromisesRequest]{Next: &t_api.SearchPromisesRequest{Id: "*", Limit: 1}})
	enc("zero-limit", &t_api.Cursor[t_api.SearchPromisesRequest]{Next: &t_api.SearchPromisesRequest{Id: "*", States: []promise.State{promise.Pending}, Tags: map[string]string{}, Limit: 0}})
	enc("negative-limit", &t_api.Cursor[t_api.SearchPromisesRequest]{Next: &t_api.SearchPromisesRequest{Id: "*", States: []promise.State{promise.Pending}, Tags: map[string]string{}, Limit: -1, SortId: &sid}})
	enc("huge-limit", &t_api.Cursor[t_api.SearchPromisesRequest]{Next: &t_api.SearchPromisesRequest{Id: "*", States: []promise.State{promise.Pending}, Tags: map[string]string{}, Limit: 1 << 40}})
	enc("schedule-cursor", &t_api.Cursor[t_api.SearchSchedulesRequest]{Next: &t_api.SearchSchedulesRequest{Id: "*", Tags: map[string]string{"a": "b"}, Limit: 1}})
	enc("schedule-empty-id", &t_api.Cursor[t_api.SearchSchedulesRequest]{Next: &t_api.SearchSchedulesRequest{Id: "", Limit: 0}})
	return out
}

func strMenu() []string {
	return []string{"", "x", "{{", "{{.x}}", "null", "a/b", ":?#%_*", `<>&"'`, "é✓", "a\x00b", " ", "\t\n", "\u00a0", big}
}

// grpcInputs: every scalar field of the request message (recursively) set to hostile
// values, every sub-message removed, map entries with hostile keys and values.
func grpcInputs(base *t_api.Request, tier string) []hostile {
	var out []hostile
	msg := GRPCMessage(base).(proto.Message)
	ep := kindLabel(base) + ":grpc"
	var walk func(m protoreflect.Message, path string, set func(mut func(protoreflect.Message)) proto.Message)
	walk = func(m protoreflect.Message, path string, set func(mut func(protoreflect.Message)) proto.Message) {
		fds := m.Descriptor().Fields()
		for i := 0; i < fds.Len(); i++ {
			fd := fds.Get(i)
			name := path + string(fd.Name())
			add := func(class string, mut func(protoreflect.Message)) {
				nm := set(mut)
				out = append(out, hostile{proto: "grpc", sigKey: fmt.Sprintf("%s:%s=%s", ep, name, class), desc: fmt.Sprintf("%T %s=%s", nm, name, class), grpc: nm})
			}
			switch {
			case fd.IsMap():
				if fd.MapValue().Kind() == protoreflect.StringKind {
					for _, k := range []string{"resonate:invoke", "resonate:timeout", "", "$"} {
						for _, v := range strMenu() {
							k, v := k, v
							add(fmt.Sprintf("map[%s]=%q", k, trunc(v, 12)), func(x protoreflect.Message) {
								mp := x.Mutable(fd).Map()
								mp.Set(protoreflect.ValueOfString(k).MapKey(), protoreflect.ValueOfString(v))
							})
						}
					}
					for _, v := range []string{`{"type":"poll","data":null}`, `{"type":"","data":{}}`, `{"type":"http"}`, "true", "1", "[]", "{}"} {
						v := v
						add(fmt.Sprintf("map[resonate:invoke]=%q", trunc(v, 30)), func(x protoreflect.Message) {
							x.Mutable(fd).Map().Set(protoreflect.ValueOfString("resonate:invoke").MapKey(), protoreflect.ValueOfString(v))
						})
					}
				}
			case fd.IsList():
			case fd.Kind() == protoreflect.MessageKind:
				add("unset", func(x protoreflect.Message) { x.Clear(fd) })
				if m.Has(fd) {
					sub := fd
					walk(m.Get(fd).Message(), name+".", func(mut func(protoreflect.Message)) proto.Message {
						return set(func(x protoreflect.Message) { mut(x.Mutable(sub).Message()) })
					})
				}
			case fd.Kind() == protoreflect.StringKind:
				for _, v := range strMenu() {
					v := v
					add(fmt.Sprintf("%q", trunc(v, 12)), func(x protoreflect.Message) { x.Set(fd, protoreflect.ValueOfString(v)) })
				}
			case fd.Kind() == protoreflect.BytesKind:
				for _, v := range []string{"", "null", "{", `{"group":null}`, "[]", "1", big} {
					v := v
					add(fmt.Sprintf("bytes:%q", trunc(v, 14)), func(x protoreflect.Message) { x.Set(fd, protoreflect.ValueOfBytes([]byte(v))) })
				}
			case fd.Kind() == protoreflect.Int64Kind:
				for _, v := range []int64{-1, 0, 1, 9223372036854775807, -9223372036854775808} {
					v := v
					add(fmt.Sprint(v), func(x protoreflect.Message) { x.Set(fd, protoreflect.ValueOfInt64(v)) })
				}
			case fd.Kind() == protoreflect.Int32Kind:
				for _, v := range []int32{-1, 0, 2147483647, -2147483648} {
					v := v
					add(fmt.Sprint(v), func(x protoreflect.Message) { x.Set(fd, protoreflect.ValueOfInt32(v)) })
				}
			case fd.Kind() == protoreflect.EnumKind:
				for _, v := range []int32{-1, 99} {
					v := v
					add(fmt.Sprintf("enum:%d", v), func(x protoreflect.Message) { x.Set(fd, protoreflect.ValueOfEnum(protoreflect.EnumNumber(v))) })
				}
			}
		}
	}
	walk(msg.ProtoReflect(), "", func(mut func(protoreflect.Message)) proto.Message {
		c := proto.Clone(msg)
		mut(c.ProtoReflect())
		return c
	})
	if base.Kind == t_api.SearchPromises || base.Kind == t_api.SearchSchedules {
		curs := map[string]string{"garbage": "garbage", "signed-empty": forgedCursor()}
		for n, t := range forgedCursors() {
			curs[n] = t
		}
		for name, cur := range curs {
			c := proto.Clone(msg)
			fd := c.ProtoReflect().Descriptor().Fields().ByName("cursor")
			c.ProtoReflect().Set(fd, protoreflect.ValueOfString(cur))
			out = append(out, hostile{proto: "grpc", sigKey: ep + ":cursor=" + name, desc: "cursor " + name, grpc: c})
		}
	}
	return out
}

// prelude: the resources the well-formed base requests refer to
func c13Prelude(w *world.World) {
	far := int64(2000000000000)
	mk := func(r *t_api.Request) { w.Do(9, len(w.Reqs), r) }
	mk(&t_api.Request{Kind: t_api.CreatePromise, CreatePromise: &t_api.CreatePromiseRequest{Id: "r", Timeout: far, Tags: map[string]string{"resonate:invoke": "poll://g/i"}}})
	mk(&t_api.Request{Kind: t_api.CreatePromise, CreatePromise: &t_api.CreatePromiseRequest{Id: "p", Timeout: far}})
	mk(&t_api.Request{Kind: t_api.CreatePromise, CreatePromise: &t_api.CreatePromiseRequest{Id: "pt", Timeout: far, Tags: map[string]string{"resonate:invoke": "poll://g/i"}}})
	mk(&t_api.Request{Kind: t_api.CreateSchedule, CreateSchedule: &t_api.CreateScheduleRequest{Id: "s", Cron: "* * * * *", PromiseId: "s.{{.timestamp}}", PromiseTimeout: 1000}})
	mk(&t_api.Request{Kind: t_api.AcquireLock, AcquireLock: &t_api.AcquireLockRequest{ResourceId: "r1", ExecutionId: "e1", ProcessId: "p1", Ttl: 100000}})
}

type C13Job struct {
	Base  *t_api.Request
	Proto string
	Tier  string
}

func (j *C13Job) Name() string                             { return fmt.Sprintf("C13/%s/%s", j.Proto, kindLabel(j.Base)) }
func (j *C13Job) Run(deadline time.Time) *runner.JobResult { return j.RunFrom(0, deadline) }

func (j *C13Job) inputs() []hostile {
	if j.Proto == "grpc" {
		return grpcInputs(j.Base, j.Tier)
	}
	return httpInputs(j.Base, j.Tier)
}

func (j *C13Job) RunFrom(start int, deadline time.Time) *runner.JobResult {
	res := &runner.JobResult{Name: j.Name(), Counters: map[string]int64{}}
	ins := j.inputs()
	outcomes := map[string]bool{}
	viol := func(sig, format string, a ...any) {
		for _, v := range res.Violations {
			if v.Sig == sig {
				return
			}
		}
		res.Violations = append(res.Violations, runner.Violation{Sig: sig, Msg: fmt.Sprintf(format, a...), Job: j.Name(), Replay: map[string]any{"job": j.Name(), "sig": sig}})
	}
	for k := start; k < len(ins); k++ {
		if !deadline.IsZero() && time.Now().After(deadline) {
			res.Capped = true
			break
		}
		in := ins[k]
		runner.TraceItem(j.Name(), k, "C13:"+in.sigKey, in.desc)
		res.Executions++
		kn, err := NewKernel(world.DefaultConfig(), c13Prelude)
		if err != nil {
			res.HarnessErr = err.Error()
			return res
		}
		var before string
		kn.Do(func(w *world.World) { before = w.Dump().Text() })
		class := ""
		if in.proto == "grpc" {
			rep := kn.F.GRPCSend(in.grpc)
			switch rep.Code {
			case "OK":
				class = "accepted"
			case "InvalidArgument", "NotFound", "AlreadyExists", "PermissionDenied":
				class = "client-error"
			default:
				class = "server-error:" + rep.Code
				viol("C13:"+in.sigKey+":"+class, "gRPC input %s was answered %s (%s): a client input must get the result or a client error", in.desc, rep.Code, rep.Err)
			}
		} else {
			rep := kn.F.HTTP(*in.http)
			switch {
			case rep.Dropped:
				class = "dropped"
				viol("C13:"+in.sigKey+":no-reply", "HTTP input %s got no reply (%s): the handler panicked", in.desc, rep.Err)
			case rep.Code >= 200 && rep.Code < 300:
				class = "accepted"
			case rep.Code >= 400 && rep.Code < 500:
				class = "client-error"
			default:
				class = fmt.Sprintf("server-error:%d", rep.Code)
				viol("C13:"+in.sigKey+":"+class, "HTTP input %s was answered %d %s: a client input must get the result or a client error", in.desc, rep.Code, trunc(string(rep.Body), 300))
			}
		}
		outcomes[class] = true
		if debugItems {
			fmt.Fprintf(os.Stderr, "ITEMCLASS %s -> %s\n", in.sigKey, class)
		}
		if kn.Wedged != "" {
			viol("C13:"+in.sigKey+":wedged", "input %s: %s", in.desc, kn.Wedged)
		}
		kn.Do(func(w *world.World) {
			if class == "client-error" && w.Dump().Text() != before {
				viol("C13:"+in.sigKey+":refused-request-left-trace", "input %s was refused with a client error but changed the database", in.desc)
			}
		})
		if class == "accepted" || class == "dropped" || strings.HasPrefix(class, "server-error") {
			// let whatever was stored be timed out, routed, dispatched and fired; restart; again
			poison := func(phase string) {
				kn.Do(func(w *world.World) {
					defer func() {
						if r := recover(); r != nil {
							viol("C13:"+in.sigKey+":background-panic", "after input %s the background processing panicked (%s): %v", in.desc, phase, r)
						}
					}()
					Cycles(w, 2)
				})
			}
			poison("at once")
			// complete the promises involved so that stored registrations become tasks and are dispatched
			kn.Do(func(w *world.World) {
				defer func() {
					if r := recover(); r != nil {
						viol("C13:"+in.sigKey+":background-panic", "after input %s completing the promises panicked: %v", in.desc, r)
					}
				}()
				for i, id := range []string{"p", "n1", "n2"} {
					w.Do(7, i, &t_api.Request{Kind: t_api.CompletePromise, CompletePromise: &t_api.CompletePromiseRequest{Id: id, State: promise.Resolved}})
				}
			})
			poison("after completing the promises")
			kn.Do(func(w *world.World) { w.SetClock(w.Clock + 3600_000) })
			poison("one hour later")
			if err := kn.Restart(); err != nil {
				res.HarnessErr = err.Error()
				return res
			}
			poison("after restart")
			kn.Do(func(w *world.World) { w.SetClock(1 << 61) })
			poison("far future")
			if rep := kn.F.HTTP(HTTPReq{Method: "GET", Path: "/promises/p"}); rep.Dropped || rep.Code >= 500 {
				viol("C13:"+in.sigKey+":unhealthy-afterwards", "after input %s and background cycles a plain read answers %d (dropped=%v)", in.desc, rep.Code, rep.Dropped)
			}
			kn.Do(func(w *world.World) {
				for _, v := range w.Viol {
					viol("C13:"+in.sigKey+":"+v.Sig, "after input %s: %s", in.desc, v.Msg)
				}
			})
		}
		kn.Close()
	}
	for o := range outcomes {
		res.Outcomes = append(res.Outcomes, o)
	}
	sort.Strings(res.Outcomes)
	res.States, res.Transitions = int64(len(ins)), res.Executions
	if len(ins) > 0 {
		res.Samples = []any{map[string]any{"input": ins[len(ins)/2].desc}}
	}
	return res
}

// c13Bases: the well-formed requests, addressed so that each of them is ACCEPTED on
// the prelude state (new ids for creations)
func c13Bases() []*t_api.Request {
	bs := BaseRequests()
	for _, b := range bs {
		switch b.Kind {
		case t_api.CreatePromise:
			b.CreatePromise.Id, b.CreatePromise.Strict = "n1", false
		case t_api.CreatePromiseAndTask:
			b.CreatePromiseAndTask.Promise.Id, b.CreatePromiseAndTask.Task.PromiseId = "n2", "n2"
		case t_api.CreateSchedule:
			b.CreateSchedule.Id = "s2"
		}
	}
	return bs
}

func C13Jobs(tier string) []runner.Job {
	var jobs []runner.Job
	for _, b := range c13Bases() {
		if b.Kind == t_api.CompletePromise && b.CompletePromise.State != promise.Resolved {
			if tier != "thorough" {
				continue
			}
		}
		jobs = append(jobs, &C13Job{Base: b, Proto: "http", Tier: tier}, &C13Job{Base: b, Proto: "grpc", Tier: tier})
	}
	jobs = append(jobs, &C13TransportJob{Tier: tier})
	return jobs
}

func init() {
	Specs["C13"] = func() *runner.Spec {
		return &runner.Spec{
			Property: "C13", Engine: "inputx", Level: "model_checking",
			Jobs: C13Jobs,
			Rule:   "every endpoint of both protocols with every field (JSON leaf paths, headers, path ids, query parameters, protobuf scalar / message / map fields found by reflection) set to every value of a hostile menu (absent, null, empty, negative, 0, min/max int, wrong JSON type, 64 KiB, template syntax, JSON literals as strings, separators, markup, non-ASCII, NUL, receiver objects with null data, forged and validly-signed-empty cursors; routing and time-out tags with those values), one deviation at a time, through the real front ends into the real kernel on a fresh database with prerequisite resources; after every accepted input: background cycles, +1h, restart, far-future cycles, health read; each input in a crash-isolated worker with restart at the next input; distinct = reply classes per endpoint",
			Assume: []string{"single-field deviations (pairs are not enumerated); oversized = 64 KiB; the kernel jobs end at capture plugins; the receiver data that travels beyond them is handed to the real poll and http transport workers by the separate job C13/transports (27 documents x 2 transports x invoke / notify, a live endpoint, and a three-message sequence through one http worker)"},
			QuickS: 170, ThoroughS: 900,
		}
	}
}
