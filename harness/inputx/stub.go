package inputx

import (
	"sync"

	"github.com/resonatehq/resonate/internal/kernel/bus"
	"github.com/resonatehq/resonate/internal/kernel/t_api"
)

// StubAPI implements internal/api.API: it captures the kernel request a front end
// produced and answers with whatever Answer returns.
type StubAPI struct {
	mu     sync.Mutex
	Last   *t_api.Request
	Count  int
	Answer func(req *t_api.Request) (*t_api.Response, error)
}

func (s *StubAPI) String() string                                 { return "api:stub" }
func (s *StubAPI) Start() error                                   { return nil }
func (s *StubAPI) Stop() error                                    { return nil }
func (s *StubAPI) Shutdown()                                      {}
func (s *StubAPI) Done() bool                                     { return false }
func (s *StubAPI) Errors() <-chan error                           { return nil }
func (s *StubAPI) Signal(<-chan interface{}) <-chan interface{}   { return nil }
func (s *StubAPI) DequeueSQE(int) []*bus.SQE[t_api.Request, t_api.Response] { return nil }
func (s *StubAPI) EnqueueCQE(*bus.CQE[t_api.Request, t_api.Response])        {}
func (s *StubAPI) DequeueCQE(cq <-chan *bus.CQE[t_api.Request, t_api.Response]) *bus.CQE[t_api.Request, t_api.Response] {
	return <-cq
}

func (s *StubAPI) EnqueueSQE(sqe *bus.SQE[t_api.Request, t_api.Response]) {
	s.mu.Lock()
	s.Last = sqe.Submission
	s.Count++
	ans := s.Answer
	s.mu.Unlock()
	res, err := ans(sqe.Submission)
	sqe.Callback(res, err)
}

func (s *StubAPI) Take() (*t_api.Request, int) {
	s.mu.Lock()
	defer s.mu.Unlock()
	r, n := s.Last, s.Count
	s.Last, s.Count = nil, 0
	return r, n
}
