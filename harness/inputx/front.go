// Package inputx is engine D: finite grammars of client inputs pushed through the
// REAL HTTP (gin) and gRPC front ends, in front of either a stub kernel that answers
// as told (C15) or the real kernel world of engine A driven by a pump (C13, C20).
package inputx

import (
	"bytes"
	"context"
	"encoding/json"
	"fmt"
	"io"
	"net/http"
	"strings"
	"time"

	i_api "github.com/resonatehq/resonate/internal/api"
	grpcfe "github.com/resonatehq/resonate/internal/app/subsystems/api/grpc"
	"github.com/resonatehq/resonate/internal/app/subsystems/api/grpc/pb"
	httpfe "github.com/resonatehq/resonate/internal/app/subsystems/api/http"
	"google.golang.org/grpc"
	"google.golang.org/grpc/credentials/insecure"
)

type Front struct {
	HTTPAddr string
	httpSub  i_api.Subsystem
	grpcSub  i_api.Subsystem
	Conn     *grpc.ClientConn
	P        pb.PromisesClient
	CB       pb.CallbacksClient
	SU       pb.SubscriptionsClient
	SC       pb.SchedulesClient
	L        pb.LocksClient
	T        pb.TasksClient
	client   *http.Client
	errs     chan error
}

func StartFront(a i_api.API) (*Front, error) {
	f := &Front{errs: make(chan error, 4)}
	h, err := httpfe.New(a, &httpfe.Config{Addr: "127.0.0.1:0", Timeout: time.Second, TaskFrequency: time.Minute})
	if err != nil {
		return nil, err
	}
	g, err := grpcfe.New(a, &grpcfe.Config{Addr: "127.0.0.1:0"})
	if err != nil {
		return nil, err
	}
	f.httpSub, f.grpcSub = h, g
	go h.Start(f.errs)
	go g.Start(f.errs)
	f.HTTPAddr = "http://" + h.Addr()
	conn, err := grpc.NewClient(g.Addr(), grpc.WithTransportCredentials(insecure.NewCredentials()))
	if err != nil {
		return nil, err
	}
	f.Conn = conn
	f.P, f.CB, f.SU, f.SC, f.L, f.T = pb.NewPromisesClient(conn), pb.NewCallbacksClient(conn), pb.NewSubscriptionsClient(conn), pb.NewSchedulesClient(conn), pb.NewLocksClient(conn), pb.NewTasksClient(conn)
	f.client = &http.Client{Timeout: 30 * time.Second}
	return f, nil
}

func (f *Front) Stop() {
	_ = f.Conn.Close()
	_ = f.httpSub.Stop()
	go func() { _ = f.grpcSub.Stop() }()
}

type HTTPReply struct {
	Dropped bool // no reply at all (connection closed: the handler panicked)
	Err     string
	Code    int
	Body    []byte
	JSON    any
	IsJSON  bool
}

type HTTPReq struct {
	Method  string
	Path    string // already escaped, with query
	Headers map[string]string
	Body    []byte // nil = no body
}

func (r HTTPReq) String() string {
	b := string(r.Body)
	if len(b) > 300 {
		b = b[:300] + fmt.Sprintf("...(%d bytes)", len(r.Body))
	}
	return fmt.Sprintf("%s %s %v %s", r.Method, r.Path, r.Headers, b)
}

func (f *Front) HTTP(r HTTPReq) *HTTPReply {
	var rd io.Reader
	if r.Body != nil {
		rd = bytes.NewReader(r.Body)
	}
	req, err := http.NewRequest(r.Method, f.HTTPAddr+r.Path, rd)
	if err != nil {
		return &HTTPReply{Err: "bad request: " + err.Error(), Code: -1}
	}
	if r.Body != nil {
		req.Header.Set("Content-Type", "application/json")
	}
	for k, v := range r.Headers {
		req.Header.Set(k, v)
	}
	resp, err := f.client.Do(req)
	if err != nil {
		return &HTTPReply{Dropped: true, Err: err.Error()}
	}
	defer resp.Body.Close()
	b, _ := io.ReadAll(resp.Body)
	rep := &HTTPReply{Code: resp.StatusCode, Body: b}
	if len(bytes.TrimSpace(b)) > 0 {
		dec := json.NewDecoder(bytes.NewReader(b))
		dec.UseNumber()
		if err := dec.Decode(&rep.JSON); err == nil {
			rep.IsJSON = true
		}
	}
	return rep
}

func ctx() (context.Context, context.CancelFunc) {
	return context.WithTimeout(context.Background(), 30*time.Second)
}

func esc(id string) string {
	// path-escape everything except '/', which ids may contain (wildcard route)
	var b strings.Builder
	for _, c := range []byte(id) {
		switch {
		case c >= 'a' && c <= 'z', c >= 'A' && c <= 'Z', c >= '0' && c <= '9', c == '-', c == '_', c == '.', c == '~', c == '/':
			b.WriteByte(c)
		default:
			fmt.Fprintf(&b, "%%%02X", c)
		}
	}
	return b.String()
}
