package inputx

import (
	"encoding/json"
	"errors"
	"fmt"
	"os"
	"regexp"
	"sort"
	"strconv"
	"time"

	"github.com/resonatehq/resonate/internal/app/subsystems/api/grpc/pb"
	"github.com/resonatehq/resonate/internal/kernel/t_api"
	"github.com/resonatehq/resonate/internal/verif/runner"
	"github.com/resonatehq/resonate/pkg/callback"
	"github.com/resonatehq/resonate/pkg/idempotency"
	"github.com/resonatehq/resonate/pkg/lock"
	"github.com/resonatehq/resonate/pkg/message"
	"github.com/resonatehq/resonate/pkg/promise"
	"github.com/resonatehq/resonate/pkg/schedule"
	"github.com/resonatehq/resonate/pkg/task"
)

// ---------------------------------------------------------------------------
// C15 — the front ends render every kernel outcome faithfully and identically
// ---------------------------------------------------------------------------

func repoDir() string {
	if d := os.Getenv("VERIF_REPO"); d != "" {
		return d
	}
	return "/repo"
}

// StatusCodes parses the kernel's status constants from the working tree, so that a
// status added later is covered without touching the harness.
func StatusCodes() []int {
	b, err := os.ReadFile(repoDir() + "/internal/kernel/t_api/status.go")
	if err != nil {
		panic(err)
	}
	re := regexp.MustCompile(`(?m)^\s*Status\w+\s+StatusCode\s*=\s*(\d+)`)
	var out []int
	for _, m := range re.FindAllStringSubmatch(string(b), -1) {
		n, _ := strconv.Atoi(m[1])
		out = append(out, n)
	}
	sort.Ints(out)
	return out
}

func i64(v int64) *int64 { return &v }

func fullPromise(state promise.State) *promise.Promise {
	k1, k2 := idempotency.Key("kc"), idempotency.Key("ku")
	p := &promise.Promise{Id: "p", State: state, Param: promise.Value{Headers: map[string]string{"a": "b"}, Data: []byte("x")}, Timeout: 5, IdempotencyKeyForCreate: &k1, Tags: map[string]string{"t": "v"}, CreatedOn: i64(1)}
	if state != promise.Pending {
		p.Value = promise.Value{Headers: map[string]string{"c": "d"}, Data: []byte("y")}
		p.IdempotencyKeyForComplete = &k2
		p.CompletedOn = i64(2)
	}
	return p
}

func sparsePromise() *promise.Promise { return &promise.Promise{Id: "p", State: promise.Pending} }

func fullTask() *task.Task {
	pid := "w"
	return &task.Task{Id: "__resume:r:p", Counter: 1, Timeout: 5, ProcessId: &pid, State: task.Claimed, RootPromiseId: "r", Recv: []byte(`"x"`), Mesg: &message.Mesg{Type: message.Resume, Root: "r", Leaf: "p"}, CreatedOn: i64(1)}
}

// response builds the kernel response for a request kind with the given status.
// shape: "full" (all optional parts present), "sparse" (optional pointers nil,
// empty lists), "none" (no resource at all: what non-2xx answers look like).
func response(r *t_api.Request, status int, shape string) *t_api.Response {
	st := t_api.StatusCode(status)
	res := &t_api.Response{Kind: r.Kind, Tags: map[string]string{}}
	var p *promise.Promise
	switch shape {
	case "full":
		p = fullPromise(promise.Resolved)
	case "sparse":
		p = sparsePromise()
	}
	var sch *schedule.Schedule
	if shape == "full" {
		k := idempotency.Key("k")
		sch = &schedule.Schedule{Id: "s", Description: "d", Cron: "* * * * *", Tags: map[string]string{"a": "b"}, PromiseId: "x", PromiseTimeout: 1, PromiseParam: promise.Value{Data: []byte("z")}, PromiseTags: map[string]string{"c": "d"}, LastRunTime: i64(1), NextRunTime: 2, IdempotencyKey: &k, CreatedOn: 1}
	} else if shape == "sparse" {
		sch = &schedule.Schedule{Id: "s", Cron: "* * * * *"}
	}
	switch r.Kind {
	case t_api.ReadPromise:
		res.ReadPromise = &t_api.ReadPromiseResponse{Status: st, Promise: p}
	case t_api.SearchPromises:
		sr := &t_api.SearchPromisesResponse{Status: st}
		if shape == "full" {
			sr.Promises = []*promise.Promise{fullPromise(promise.Pending), fullPromise(promise.Timedout)}
			sid := int64(7)
			sr.Cursor = &t_api.Cursor[t_api.SearchPromisesRequest]{Next: &t_api.SearchPromisesRequest{Id: "*", States: []promise.State{promise.Pending}, Tags: map[string]string{}, Limit: 2, SortId: &sid}}
		} else if shape == "sparse" {
			sr.Promises = []*promise.Promise{}
		}
		res.SearchPromises = sr
	case t_api.CreatePromise:
		res.CreatePromise = &t_api.CreatePromiseResponse{Status: st, Promise: p}
	case t_api.CreatePromiseAndTask:
		x := &t_api.CreatePromiseAndTaskResponse{Status: st, Promise: p}
		if shape == "full" {
			x.Task = fullTask()
		}
		res.CreatePromiseAndTask = x
	case t_api.CompletePromise:
		res.CompletePromise = &t_api.CompletePromiseResponse{Status: st, Promise: p}
	case t_api.CreateCallback:
		x := &t_api.CreateCallbackResponse{Status: st, Promise: p}
		if shape == "full" {
			x.Callback = &callback.Callback{Id: "cb", PromiseId: "p", RootPromiseId: "r", Timeout: 5, CreatedOn: 1}
		}
		res.CreateCallback = x
	case t_api.CreateSubscription:
		x := &t_api.CreateSubscriptionResponse{Status: st, Promise: p}
		if shape == "full" {
			x.Callback = &callback.Callback{Id: "cb", PromiseId: "p", Timeout: 5, CreatedOn: 1}
		}
		res.CreateSubscription = x
	case t_api.ReadSchedule:
		res.ReadSchedule = &t_api.ReadScheduleResponse{Status: st, Schedule: sch}
	case t_api.SearchSchedules:
		x := &t_api.SearchSchedulesResponse{Status: st}
		if shape == "full" {
			x.Schedules = []*schedule.Schedule{sch}
			sid := int64(3)
			x.Cursor = &t_api.Cursor[t_api.SearchSchedulesRequest]{Next: &t_api.SearchSchedulesRequest{Id: "*", Tags: map[string]string{}, Limit: 1, SortId: &sid}}
		} else if shape == "sparse" {
			x.Schedules = []*schedule.Schedule{}
		}
		res.SearchSchedules = x
	case t_api.CreateSchedule:
		res.CreateSchedule = &t_api.CreateScheduleResponse{Status: st, Schedule: sch}
	case t_api.DeleteSchedule:
		res.DeleteSchedule = &t_api.DeleteScheduleResponse{Status: st}
	case t_api.AcquireLock:
		x := &t_api.AcquireLockResponse{Status: st}
		if shape != "none" {
			x.Lock = &lock.Lock{ResourceId: "r1", ExecutionId: "e1", ProcessId: "p1", Ttl: 5, ExpiresAt: 9}
		}
		res.AcquireLock = x
	case t_api.ReleaseLock:
		res.ReleaseLock = &t_api.ReleaseLockResponse{Status: st}
	case t_api.HeartbeatLocks:
		res.HeartbeatLocks = &t_api.HeartbeatLocksResponse{Status: st, LocksAffected: 2}
	case t_api.ClaimTask:
		x := &t_api.ClaimTaskResponse{Status: st}
		if shape != "none" {
			x.Task = fullTask()
			x.RootPromiseHref, x.LeafPromiseHref = "http://x/promises/r", "http://x/promises/p"
			if shape == "full" {
				x.RootPromise, x.LeafPromise = fullPromise(promise.Pending), fullPromise(promise.Resolved)
			}
		}
		res.ClaimTask = x
	case t_api.CompleteTask:
		x := &t_api.CompleteTaskResponse{Status: st}
		if shape == "full" {
			x.Task = fullTask()
		}
		res.CompleteTask = x
	case t_api.HeartbeatTasks:
		res.HeartbeatTasks = &t_api.HeartbeatTasksResponse{Status: st, TasksAffected: 3}
	}
	return res
}

// which 2xx statuses each operation's coroutine can answer (transcribed from the coroutines)
var success = map[t_api.Kind][]int{
	t_api.ReadPromise: {20000}, t_api.SearchPromises: {20000}, t_api.CreatePromise: {20000, 20100}, t_api.CreatePromiseAndTask: {20000, 20100},
	t_api.CompletePromise: {20000, 20100}, t_api.CreateCallback: {20000, 20100}, t_api.CreateSubscription: {20000, 20100},
	t_api.ReadSchedule: {20000}, t_api.SearchSchedules: {20000}, t_api.CreateSchedule: {20000, 20100}, t_api.DeleteSchedule: {20400},
	t_api.AcquireLock: {20100}, t_api.ReleaseLock: {20400}, t_api.HeartbeatLocks: {20000},
	t_api.ClaimTask: {20100}, t_api.CompleteTask: {20000, 20100}, t_api.HeartbeatTasks: {20000},
}

func grpcCodeFor(status int) string {
	switch status / 100 {
	case 400:
		return "InvalidArgument"
	case 403:
		return "PermissionDenied"
	case 404:
		return "NotFound"
	case 409:
		return "AlreadyExists"
	case 500:
		return "Internal"
	case 503:
		return "Unavailable"
	}
	return "?"
}

type C15Job struct {
	Base  *t_api.Request
	Proto string // http | http-get | grpc
}

func (j *C15Job) Name() string { return fmt.Sprintf("C15/%s/%s", j.Proto, kindLabel(j.Base)) }

func (j *C15Job) Run(deadline time.Time) *runner.JobResult { return j.RunFrom(0, deadline) }

type c15Item struct {
	status   int
	delivery string // response | error | error-nocause
	shape    string
}

func (j *C15Job) items() []c15Item {
	var out []c15Item
	for _, s := range StatusCodes() {
		if s < 30000 {
			ok := false
			for _, x := range success[j.Base.Kind] {
				if x == s {
					ok = true
				}
			}
			if !ok {
				continue
			}
			out = append(out, c15Item{s, "response", "full"}, c15Item{s, "response", "sparse"})
			continue
		}
		if s < 50000 {
			out = append(out, c15Item{s, "response", "none"}, c15Item{s, "response", "sparse"})
		}
		if s >= 50000 || s == 40404 {
			out = append(out, c15Item{s, "error", "none"}, c15Item{s, "error-nocause", "none"})
		}
	}
	return out
}

func (j *C15Job) RunFrom(start int, deadline time.Time) *runner.JobResult {
	res := &runner.JobResult{Name: j.Name(), Counters: map[string]int64{}}
	stub := &StubAPI{}
	f, err := StartFront(stub)
	if err != nil {
		res.HarnessErr = err.Error()
		return res
	}
	defer f.Stop()
	viol := func(sig, format string, a ...any) {
		for _, v := range res.Violations {
			if v.Sig == sig {
				return
			}
		}
		res.Violations = append(res.Violations, runner.Violation{Sig: sig, Msg: fmt.Sprintf(format, a...), Job: j.Name(), Replay: map[string]any{"job": j.Name(), "sig": sig}})
	}
	items := j.items()
	outcomes := map[string]bool{}
	for k := start; k < len(items); k++ {
		it := items[k]
		sigKey := fmt.Sprintf("C15:%s:%s:status=%d:%s", j.Proto, kindLabel(j.Base), it.status, it.delivery)
		runner.TraceItem(j.Name(), k, sigKey, fmt.Sprintf("%s %s answered with status %d (%s, shape %s)", j.Proto, kindLabel(j.Base), it.status, it.delivery, it.shape))
		stub.Answer = func(req *t_api.Request) (*t_api.Response, error) {
			switch it.delivery {
			case "error":
				return nil, t_api.NewError(t_api.StatusCode(it.status), errors.New("cause"))
			case "error-nocause":
				return nil, t_api.NewError(t_api.StatusCode(it.status), nil)
			}
			return response(req, it.status, it.shape), nil
		}
		res.Executions++
		is2xx := it.status < 30000
		if j.Proto == "grpc" {
			rep := f.GRPCSend(GRPCMessage(j.Base))
			outcomes[fmt.Sprintf("%d/%s/%s", it.status, it.delivery, rep.Code)] = true
			if is2xx {
				if rep.Code != "OK" {
					viol(sigKey+":grpc-code="+rep.Code, "gRPC %s: kernel status %d (success) was rendered as %s %s", kindLabel(j.Base), it.status, rep.Code, rep.Err)
					continue
				}
				j.checkFlags(rep.Msg, it.status, viol, sigKey)
			} else if want := grpcCodeFor(it.status); rep.Code != want {
				viol(sigKey+":grpc-code="+rep.Code, "gRPC %s: kernel status %d must map to %s, got %s (%s)", kindLabel(j.Base), it.status, want, rep.Code, rep.Err)
			}
		} else {
			rep := f.HTTP(HTTPFor(j.Base, j.Proto == "http-get"))
			outcomes[fmt.Sprintf("%d/%s/%d", it.status, it.delivery, rep.Code)] = true
			switch {
			case rep.Dropped:
				viol(sigKey+":dropped", "HTTP %s: no reply at all for kernel status %d (%s): the handler panicked (%s)", kindLabel(j.Base), it.status, it.delivery, rep.Err)
			case rep.Code != it.status/100:
				viol(sigKey+fmt.Sprintf(":http-code=%d", rep.Code), "HTTP %s: kernel status %d rendered as HTTP %d", kindLabel(j.Base), it.status, rep.Code)
			case rep.Code != 204 && !rep.IsJSON:
				viol(sigKey+":body-not-json", "HTTP %s: status %d body is not JSON: %q", kindLabel(j.Base), it.status, rep.Body)
			case !is2xx:
				m, _ := rep.JSON.(map[string]any)
				e, _ := m["error"].(map[string]any)
				if e == nil || fmt.Sprint(e["code"]) != fmt.Sprint(it.status) {
					viol(sigKey+":error-body", "HTTP %s: status %d error body is %s", kindLabel(j.Base), it.status, rep.Body)
				}
			}
		}
	}
	if start == 0 {
		// the same logical request through both protocols reaches the kernel as the same request
		j.equivalence(f, stub, viol)
	}
	for o := range outcomes {
		res.Outcomes = append(res.Outcomes, o)
	}
	sort.Strings(res.Outcomes)
	res.States, res.Transitions = int64(len(items)), res.Executions
	res.Samples = []any{map[string]any{"operation": kindLabel(j.Base), "protocol": j.Proto, "statuses": len(items)}}
	return res
}

func (j *C15Job) checkFlags(msg any, status int, viol func(string, string, ...any), sigKey string) {
	flag := func(name string, got, want bool) {
		if got != want {
			viol(sigKey+":flag-"+name, "gRPC %s: kernel status %d but %s=%v", kindLabel(j.Base), status, name, got)
		}
	}
	switch m := msg.(type) {
	case *pb.AcquireLockResponse:
		flag("acquired", m.Acquired, status == 20100)
	case *pb.ReleaseLockResponse:
		flag("released", m.Released, status == 20400)
	case *pb.ClaimTaskResponse:
		flag("claimed", m.Claimed, status == 20100)
	case *pb.CompleteTaskResponse:
		flag("completed", m.Completed, status == 20100)
	case *pb.CreatePromiseResponse:
		flag("noop", m.Noop, status == 20000)
	case *pb.CreatePromiseAndTaskResponse:
		flag("noop", m.Noop, status == 20000)
	case *pb.ResolvePromiseResponse:
		flag("noop", m.Noop, status == 20000)
	case *pb.RejectPromiseResponse:
		flag("noop", m.Noop, status == 20000)
	case *pb.CancelPromiseResponse:
		flag("noop", m.Noop, status == 20000)
	case *pb.CreateCallbackResponse:
		flag("noop", m.Noop, status == 20000)
	case *pb.CreateSubscriptionResponse:
		flag("noop", m.Noop, status == 20000)
	case *pb.CreatedScheduleResponse:
		flag("noop", m.Noop, status == 20000)
	}
}

// normal form of the kind-specific part of a kernel request
func normalRequest(r *t_api.Request) string {
	var v any
	switch r.Kind {
	case t_api.ReadPromise:
		v = r.ReadPromise
	case t_api.SearchPromises:
		v = r.SearchPromises
	case t_api.CreatePromise:
		v = r.CreatePromise
	case t_api.CreatePromiseAndTask:
		v = r.CreatePromiseAndTask
	case t_api.CompletePromise:
		v = r.CompletePromise
	case t_api.CreateCallback:
		v = r.CreateCallback
	case t_api.CreateSubscription:
		v = r.CreateSubscription
	case t_api.ReadSchedule:
		v = r.ReadSchedule
	case t_api.SearchSchedules:
		v = r.SearchSchedules
	case t_api.CreateSchedule:
		v = r.CreateSchedule
	case t_api.DeleteSchedule:
		v = r.DeleteSchedule
	case t_api.AcquireLock:
		v = r.AcquireLock
	case t_api.ReleaseLock:
		v = r.ReleaseLock
	case t_api.HeartbeatLocks:
		v = r.HeartbeatLocks
	case t_api.ClaimTask:
		v = r.ClaimTask
	case t_api.CompleteTask:
		v = r.CompleteTask
	case t_api.HeartbeatTasks:
		v = r.HeartbeatTasks
	}
	b, _ := json.Marshal(v)
	var g any
	_ = json.Unmarshal(b, &g)
	g = normalize(g)
	b, _ = json.Marshal(g)
	return string(b)
}

// normalize: absent == empty for maps, strings and lists; JSON text inside recv is compared semantically
func normalize(v any) any {
	switch x := v.(type) {
	case map[string]any:
		out := map[string]any{}
		for k, e := range x {
			n := normalize(e)
			switch y := n.(type) {
			case nil:
				continue
			case map[string]any:
				if len(y) == 0 {
					continue
				}
			case []any:
				if len(y) == 0 {
					continue
				}
			case string:
				if y == "" {
					continue
				}
			case bool:
				if !y {
					continue
				}
			case float64:
				if y == 0 {
					continue
				}
			}
			out[k] = n
		}
		return out
	case []any:
		for i := range x {
			x[i] = normalize(x[i])
		}
		return x
	}
	return v
}

func (j *C15Job) equivalence(f *Front, stub *StubAPI, viol func(string, string, ...any)) {
	if j.Proto == "http-get" {
		return
	}
	stub.Answer = func(req *t_api.Request) (*t_api.Response, error) {
		return nil, t_api.NewError(t_api.StatusInternalServerError, nil)
	}
	// the base request, and the same request addressed to ids that the HTTP path has to
	// carry unaltered (inner, trailing and leading slashes)
	variants := []*t_api.Request{j.Base}
	for _, id := range []string{"a/b", "a/", "/a"} {
		if v := withPathId(j.Base, id); v != nil {
			variants = append(variants, v)
		}
	}
	for vi, base := range variants {
		stub.Take()
		var got *t_api.Request
		if j.Proto == "grpc" {
			f.GRPCSend(GRPCMessage(base))
		} else {
			f.HTTP(HTTPFor(base, false))
		}
		got, n := stub.Take()
		label := kindLabel(j.Base)
		if vi > 0 {
			label += ":id-with-slash"
		}
		if n != 1 || got == nil {
			viol(fmt.Sprintf("C15:%s:%s:not-forwarded", j.Proto, label), "%s %s: a well-formed request (%s) reached the kernel %d times", j.Proto, kindLabel(j.Base), normalRequest(base), n)
			continue
		}
		want := normalRequest(base)
		if g := normalRequest(got); g != want || got.Kind != base.Kind {
			viol(fmt.Sprintf("C15:%s:%s:translated-differently", j.Proto, label), "%s %s: the kernel request differs from the logical request (so the two protocols disagree)\nwant %s\ngot  %s", j.Proto, kindLabel(j.Base), want, g)
		}
	}
}

// withPathId: a copy of the request addressed to another resource id, for the operations
// whose id travels in the HTTP path (nil for the others).
func withPathId(r *t_api.Request, id string) *t_api.Request {
	c := *r
	switch r.Kind {
	case t_api.ReadPromise:
		x := *r.ReadPromise
		x.Id = id
		c.ReadPromise = &x
	case t_api.CompletePromise:
		x := *r.CompletePromise
		x.Id = id
		c.CompletePromise = &x
	case t_api.ReadSchedule:
		x := *r.ReadSchedule
		x.Id = id
		c.ReadSchedule = &x
	case t_api.DeleteSchedule:
		x := *r.DeleteSchedule
		x.Id = id
		c.DeleteSchedule = &x
	default:
		return nil
	}
	return &c
}

func C15Jobs(tier string) []runner.Job {
	var jobs []runner.Job
	for _, b := range BaseRequests() {
		jobs = append(jobs, &C15Job{Base: b, Proto: "http"}, &C15Job{Base: b, Proto: "grpc"})
		switch b.Kind {
		case t_api.ClaimTask, t_api.CompleteTask, t_api.HeartbeatTasks:
			jobs = append(jobs, &C15Job{Base: b, Proto: "http-get"})
		}
	}
	return jobs
}

func C15Spec() *runner.Spec {
	return &runner.Spec{
		Property: "C15", Engine: "inputx", Level: "model_checking",
		Jobs: C15Jobs,
		Rule:   "every operation (17 request kinds, the three completion verbs separately) x protocol {HTTP, HTTP GET task links, gRPC} x every Status* constant parsed from the working tree's status.go x delivery {response status, t_api.Error with and without cause} x response shape {every optional part present, optional pointers nil / empty lists, no resource}, through the real gin and grpc-go servers in front of a stub kernel; plus the logical request of every operation (for path-borne ids also with inner, trailing and leading slashes) sent through both protocols and compared with what reaches the kernel; distinct = distinct (status, delivery, rendered code) triples per operation and protocol",
		Assume: []string{"gin / grpc-go wire handling is trusted; success statuses per operation are transcribed from the coroutines; application statuses (<50000) are delivered as response statuses, platform statuses and 40404 as errors"},
		QuickS: 120, ThoroughS: 300,
	}
}

// Specs of the other engine-D properties register themselves here.
var Specs = map[string]func() *runner.Spec{}
