package inputx

import (
	"fmt"
	"sync"
	"net/http"
	"net/http/httptest"
	"sort"
	"time"

	"github.com/prometheus/client_golang/prometheus"
	"github.com/resonatehq/resonate/internal/aio"
	httpplugin "github.com/resonatehq/resonate/internal/app/plugins/http"
	"github.com/resonatehq/resonate/internal/app/plugins/poll"
	"github.com/resonatehq/resonate/internal/metrics"
	"github.com/resonatehq/resonate/internal/verif/runner"
	"github.com/resonatehq/resonate/pkg/message"
)

// C13TransportJob hands every value of a menu of receiver "data" documents (the part of a
// client-supplied receiver {"type":…,"data":…} that the kernel stores verbatim and passes
// to the transport plugin when the task is dispatched) to the REAL poll and http plugin
// workers, started the way the sender starts them. The other C13 jobs end at capture
// plugins; this one closes the gap for the one piece of client input that travels beyond
// them. A panic on a transport worker goroutine kills the server: the job runs in the
// crash-isolated worker and names the input.
type C13TransportJob struct{ Tier string }

func (j *C13TransportJob) Name() string                             { return "C13/transports/receiver-data" }
func (j *C13TransportJob) Run(deadline time.Time) *runner.JobResult { return j.RunFrom(0, deadline) }

type transportItem struct {
	plugin, label, data string
	typ                 message.Type
}

func transportItems() []transportItem {
	menu := [][2]string{
		{"null", `null`}, {"empty-object", `{}`}, {"array", `[]`}, {"string", `"x"`}, {"number", `5`}, {"true", `true`}, {"no-bytes", ``}, {"garbage", `{"group"`},
		{"group-null", `{"group":null}`}, {"group-number", `{"group":5}`}, {"group-empty", `{"group":""}`}, {"id-null", `{"group":"g","id":null}`}, {"id-number", `{"group":"g","id":5}`}, {"group-only", `{"group":"g"}`},
		{"url-null", `{"url":null}`}, {"url-number", `{"url":5}`}, {"url-empty", `{"url":""}`}, {"url-colons", `{"url":"::"}`}, {"url-space", `{"url":"ht tp://x"}`}, {"url-control", "{\"url\":\"http://127.0.0.1:1/\\u0000\"}"},
		{"url-refused", `{"url":"http://127.0.0.1:1/x"}`}, {"headers-null", `{"url":"http://127.0.0.1:1/x","headers":null}`}, {"headers-number-value", `{"url":"http://127.0.0.1:1/x","headers":{"a":5}}`},
		{"headers-bad-name", "{\"url\":\"http://127.0.0.1:1/x\",\"headers\":{\"a\\nb\":\"c\",\"\":\"v\"}}"}, {"headers-array", `{"url":"http://127.0.0.1:1/x","headers":[]}`},
		{"unknown-scheme", `{"url":"gopher://127.0.0.1:1/x"}`}, {"nested-junk", `{"group":{"a":1},"url":{"b":2}}`},
	}
	var out []transportItem
	// not vacuous: a well-formed receiver reaches a live endpoint and is reported delivered
	out = append(out, transportItem{plugin: "http", label: "valid-live-endpoint", data: "LIVE", typ: message.Invoke})
	for _, pl := range []string{"poll", "http"} {
		for _, m := range menu {
			for _, t := range []message.Type{message.Invoke, message.Notify} {
				out = append(out, transportItem{plugin: pl, label: m[0], data: m[1], typ: t})
			}
		}
	}
	return out
}

func (j *C13TransportJob) RunFrom(start int, deadline time.Time) *runner.JobResult {
	res := &runner.JobResult{Name: j.Name(), Counters: map[string]int64{}}
	items := transportItems()
	outcomes := map[string]bool{}
	viol := func(sig, format string, a ...any) {
		for _, v := range res.Violations {
			if v.Sig == sig {
				return
			}
		}
		res.Violations = append(res.Violations, runner.Violation{Sig: sig, Msg: fmt.Sprintf(format, a...), Job: j.Name(), Replay: map[string]any{"job": j.Name(), "sig": sig}})
	}
	m := metrics.New(prometheus.NewRegistry())
	live := httptest.NewServer(http.HandlerFunc(func(w http.ResponseWriter, r *http.Request) { w.WriteHeader(200) }))
	defer live.Close()
	for k := start; k < len(items); k++ {
		if !deadline.IsZero() && time.Now().After(deadline) {
			res.Capped = true
			break
		}
		it := items[k]
		if it.data == "LIVE" {
			it.data = fmt.Sprintf(`{"url":%q}`, live.URL)
		}
		sigKey := fmt.Sprintf("transport:%s:data=%s", it.plugin, it.label)
		desc := fmt.Sprintf("a %s message handed to the %s transport for a receiver whose data is %s", it.typ, it.plugin, trunc(it.data, 80))
		runner.TraceItem(j.Name(), k, "C13:"+sigKey, desc)
		res.Executions++
		var plugin aio.Plugin
		switch it.plugin {
		case "poll":
			p, err := poll.New(nil, m, &poll.Config{Size: 4, BufferSize: 4, MaxConnections: 4, Addr: "127.0.0.1:0", Timeout: time.Second})
			if err != nil {
				res.HarnessErr = err.Error()
				return res
			}
			plugin = p
		default:
			p, err := httpplugin.New(nil, m, &httpplugin.Config{Size: 4, Workers: 1, Timeout: 300 * time.Millisecond})
			if err != nil {
				res.HarnessErr = err.Error()
				return res
			}
			plugin = p
		}
		errs := make(chan error, 1)
		if err := plugin.Start(errs); err != nil {
			res.HarnessErr = err.Error()
			return res
		}
		done := make(chan string, 4)
		ok := plugin.Enqueue(&aio.Message{Type: it.typ, Data: []byte(it.data), Body: []byte(`{"x":1}`), Done: func(ok bool, err error) {
			done <- fmt.Sprintf("done(%v)", ok)
		}})
		class := "queue-refused"
		if ok {
			select {
			case class = <-done:
				select {
				case again := <-done:
					viol("C13:"+sigKey+":completed-twice", "%s: the hand-off was completed twice (%s, %s)", desc, class, again)
				case <-time.After(20 * time.Millisecond):
				}
			case <-time.After(3 * time.Second):
				class = "no-completion"
				viol("C13:"+sigKey+":no-completion", "%s: the transport never reported the outcome of the hand-off (the task would stay enqueued for ever)", desc)
			}
		}
		outcomes[it.plugin+":"+class] = true
		if it.label == "valid-live-endpoint" && class != "done(true)" {
			viol("C13:"+sigKey+":not-delivered", "%s: a well-formed receiver pointing at a live endpoint was not reported delivered (%s)", desc, class)
		}
		_ = plugin.Stop()
	}
	// one worker, several hand-offs in a row: the receiver of one message must not colour the next
	if start <= len(items) && (deadline.IsZero() || time.Now().Before(deadline)) {
		runner.TraceItem(j.Name(), len(items), "C13:transport:http:sequence", "three hand-offs in a row through one http transport worker")
		res.Executions++
		type seen struct {
			n    int
			cred string
		}
		var mu sync.Mutex
		got := map[string]*seen{}
		mk := func(name string) *httptest.Server {
			got[name] = &seen{}
			return httptest.NewServer(http.HandlerFunc(func(w http.ResponseWriter, r *http.Request) {
				mu.Lock()
				got[name].n++
				got[name].cred = r.Header.Get("X-Cred")
				mu.Unlock()
				w.WriteHeader(200)
			}))
		}
		s1, s2 := mk("first"), mk("second")
		defer s1.Close()
		defer s2.Close()
		p, err := httpplugin.New(nil, m, &httpplugin.Config{Size: 4, Workers: 1, Timeout: 300 * time.Millisecond})
		if err != nil {
			res.HarnessErr = err.Error()
			return res
		}
		_ = p.Start(make(chan error, 1))
		send := func(data string) string {
			done := make(chan string, 2)
			if !p.Enqueue(&aio.Message{Type: message.Invoke, Data: []byte(data), Body: []byte(`{"x":1}`), Done: func(ok bool, err error) { done <- fmt.Sprintf("done(%v)", ok) }}) {
				return "queue-refused"
			}
			select {
			case c := <-done:
				return c
			case <-time.After(3 * time.Second):
				return "no-completion"
			}
		}
		r1 := send(fmt.Sprintf(`{"url":%q,"headers":{"X-Cred":"secret-of-first"}}`, s1.URL))
		r2 := send(`{"headers":{}}`)
		r3 := send(fmt.Sprintf(`{"url":%q}`, s2.URL))
		_ = p.Stop()
		mu.Lock()
		n1, n2, cred2 := got["first"].n, got["second"].n, got["second"].cred
		mu.Unlock()
		outcomes[fmt.Sprintf("http:sequence:%s,%s,%s", r1, r2, r3)] = true
		if r1 != "done(true)" || n1 < 1 {
			viol("C13:transport:http:sequence:first-not-delivered", "a well-formed receiver with headers was not delivered (%s, %d requests)", r1, n1)
		}
		if r2 != "done(false)" || n1 > 1 {
			viol("C13:transport:http:sequence:url-of-previous-receiver", "a receiver without url was reported %s and the endpoint of the PREVIOUS receiver got %d requests: the hand-off went to another task's receiver", r2, n1)
		}
		if r3 != "done(true)" || n2 != 1 {
			viol("C13:transport:http:sequence:third-not-delivered", "the third receiver was not delivered exactly once (%s, %d requests)", r3, n2)
		}
		if cred2 != "" {
			viol("C13:transport:http:sequence:headers-of-previous-receiver", "the request to the third receiver carried the header X-Cred=%q of the first receiver", cred2)
		}
	}
	for o := range outcomes {
		res.Outcomes = append(res.Outcomes, o)
	}
	sort.Strings(res.Outcomes)
	res.States, res.Transitions = int64(len(items))+1, res.Executions
	res.Samples = []any{map[string]any{"input": fmt.Sprintf("%s transport, data %s", items[len(items)/2].plugin, items[len(items)/2].data)}}
	return res
}
