package inputx

import (
	"fmt"
	"sync"
	"time"

	"github.com/resonatehq/resonate/internal/verif/world"
)

// Kernel is the real kernel world of engine A behind the real front ends. A pump
// goroutine ticks the kernel and executes pending submissions first-in first-out
// while requests are in flight; the driver takes the lock to run background phases
// (clock steps, gated sweeps, restarts) between requests.
type Kernel struct {
	mu     sync.Mutex
	W      *world.World
	F      *Front
	stop   chan struct{}
	done   chan struct{}
	Wedged string
}

func NewKernel(cfg world.Config, prelude func(w *world.World)) (*Kernel, error) {
	k := &Kernel{W: world.New(cfg)}
	if prelude != nil {
		prelude(k.W)
	}
	if err := k.startFront(); err != nil {
		return nil, err
	}
	return k, nil
}

func (k *Kernel) startFront() error {
	f, err := StartFront(k.W.API())
	if err != nil {
		return err
	}
	k.F = f
	k.stop, k.done = make(chan struct{}), make(chan struct{})
	go k.pump(k.stop, k.done)
	return nil
}

func (k *Kernel) pump(stop, done chan struct{}) {
	defer close(done)
	for {
		select {
		case <-stop:
			return
		default:
		}
		k.mu.Lock()
		k.W.Tick()
		busy := false
		for i := 0; len(k.W.Pending()) > 0; i++ {
			busy = true
			if i > 5000 {
				k.Wedged = "a request keeps issuing submissions (kernel loop wedged)"
				k.mu.Unlock()
				return
			}
			k.W.Exec(0, world.OK)
		}
		k.mu.Unlock()
		if !busy {
			time.Sleep(50 * time.Microsecond)
		}
	}
}

func (k *Kernel) stopFront() {
	close(k.stop)
	<-k.done
	k.F.Stop()
}

// Do runs a background phase with the pump held off.
func (k *Kernel) Do(f func(w *world.World)) {
	k.mu.Lock()
	defer k.mu.Unlock()
	f(k.W)
}

// Restart kills the server and boots a new one (with new front ends) on the same database.
func (k *Kernel) Restart() error {
	k.stopFront()
	k.W.Crash()
	return k.startFront()
}

func (k *Kernel) Close() {
	k.stopFront()
	func() {
		defer func() { _ = recover() }()
		k.W.Close()
	}()
}

// Cycles lets stored data be timed out, routed, dispatched and fired: all five
// sweeps, several rounds, at the current clock.
func Cycles(w *world.World, rounds int) {
	for r := 0; r < rounds; r++ {
		for _, name := range world.BackgroundNames {
			w.Sweep(name)
		}
	}
}

func violationsOf(w *world.World) string {
	s := ""
	for _, v := range w.Viol {
		s += fmt.Sprintf("[%s] %s; ", v.Sig, v.Msg)
	}
	return s
}
