// Package vx is the exploration core shared by all engines: a replaying chooser,
// a deviation-bounded depth-first search over choice sequences with optional
// state-key pruning, and counters that end up in the evidence files.
package vx

import (
	"crypto/sha256"
	"fmt"
	"os"
	"runtime"
	"strconv"
	"strings"
	"sync"
)

// Divergence is raised (as a panic value) when a replayed prefix does not fit
// the execution it is replayed on. It is a harness error, never a violation.
type Divergence struct{ Msg string }

func (d Divergence) Error() string { return "replay divergence: " + d.Msg }

type Point struct {
	N      int    // number of options
	Choice int    // option taken
	Costs  []int  // cost of each option (nil = all zero)
	Label  string // label of the option taken
}

// Chooser hands out choices: the prefix first, then option 0.
type Chooser struct {
	prefix []int
	Points []Point
	ex     *Explorer
	Cut    bool // set when a visited state was reached beyond the prefix
	used   int

	Worker int // index of the explorer worker running this execution
}


func (c *Chooser) Pos() int { return len(c.Points) }

func (c *Chooser) Prefix() []int { return c.prefix }

// Replaying reports whether the next choice is still dictated by the prefix.
func (c *Chooser) Replaying() bool { return len(c.Points) < len(c.prefix) }

// Choose picks one of len(labels) options. costs may be nil.
func (c *Chooser) Choose(labels []string, costs []int) int {
	n := len(labels)
	if n == 0 {
		panic(Divergence{"choice point without options"})
	}
	ch := 0
	if i := len(c.Points); i < len(c.prefix) {
		ch = c.prefix[i]
		if ch < 0 || ch >= n {
			panic(Divergence{fmt.Sprintf("choice %d out of range %d at point %d (%s)", ch, n, i, strings.Join(labels, "|"))})
		}
	}
	if costs != nil {
		c.used += costs[ch]
	}
	c.Points = append(c.Points, Point{N: n, Choice: ch, Costs: costs, Label: labels[ch]})
	return ch
}

// Seen records the state key at the current position and reports whether the
// execution should be cut here because an equal state was already expanded
// with at least as much deviation budget left. Keys inside the replayed prefix
// are never looked up (those states were expanded by the run that found them).
func (c *Chooser) Seen(key func() string) bool {
	if c.ex == nil || !c.ex.Prune {
		return false
	}
	if len(c.Points) < len(c.prefix) {
		return false
	}
	k := hash(key())
	c.ex.mu.Lock()
	defer c.ex.mu.Unlock()
	if used, ok := c.ex.visited[k]; ok && used <= c.used {
		c.ex.Stats.Cut++
		c.Cut = true
		return true
	}
	if _, ok := c.ex.visited[k]; !ok {
		c.ex.Stats.States++
	}
	c.ex.visited[k] = c.used
	return false
}

func (c *Chooser) Choices() []int {
	out := make([]int, len(c.Points))
	for i, p := range c.Points {
		out[i] = p.Choice
	}
	return out
}

func (c *Chooser) Labels() []string {
	out := make([]string, len(c.Points))
	for i, p := range c.Points {
		out[i] = p.Label
	}
	return out
}

// memExceeded: the heap of this worker process is above VERIF_MEMLIMIT_MB (default 2048).
// Code under test may leak per execution (gocoro.Add starts a goroutine for a coroutine
// that the full scheduler then refuses; it is never resumed); an exploration of millions
// of executions stops as "capped" instead of taking the machine down.
func memExceeded() bool {
	limit := uint64(2048)
	if v := os.Getenv("VERIF_MEMLIMIT_MB"); v != "" {
		if n, err := strconv.ParseUint(v, 10, 64); err == nil && n > 0 {
			limit = n
		}
	}
	var ms runtime.MemStats
	runtime.ReadMemStats(&ms)
	return ms.HeapAlloc>>20 > limit
}

type key [16]byte

func hash(s string) key {
	h := sha256.Sum256([]byte(s))
	var k key
	copy(k[:], h[:16])
	return k
}

type Stats struct {
	Executions  int64 // runs of the system under test
	Transitions int64 // choice points taken beyond a replayed prefix
	States      int64 // distinct state keys (pruning on) or 0
	Cut         int64 // runs cut at a visited state
	MaxDepth    int
	Capped      bool // a cap (executions) was hit: not exhaustive
	MemStop     bool // the cap was the memory limit of the worker process
}

type Explorer struct {
	Bound   int  // max total cost of non-default choices; <0 = unbounded
	Prune   bool // state-key pruning
	MaxExec int64
	Stats   Stats
	Stop    func() bool // polled between executions; true = stop, not exhaustive
	// Workers > 1 runs that many executions concurrently (each on its own instance
	// of the system under test) over one shared work stack and one shared visited
	// set. The set of states expanded is the same as with one worker; only the
	// order, and therefore which run is the one that is cut at a state, varies.
	Workers int

	mu      sync.Mutex
	visited map[key]int
}

func NewChooser(prefix []int) *Chooser { return &Chooser{prefix: prefix} }

// Explore runs `run` for every choice sequence within the bound. `run` must be
// deterministic given the chooser (and safe for concurrent use if Workers > 1).
// It returns false to abort the search.
func (e *Explorer) Explore(run func(*Chooser) bool) {
	if e.visited == nil {
		e.visited = map[key]int{}
	}
	nw := e.Workers
	if nw < 1 {
		nw = 1
	}
	stack := [][]int{{}}
	busy := 0
	abort := false
	cond := sync.NewCond(&e.mu)
	var wg sync.WaitGroup
	var panicVal any
	for wi := 0; wi < nw; wi++ {
		wg.Add(1)
		go func(wi int) {
			defer wg.Done()
			defer func() {
				if r := recover(); r != nil {
					e.mu.Lock()
					if panicVal == nil {
						panicVal = r
					}
					abort = true
					cond.Broadcast()
					e.mu.Unlock()
				}
			}()
			for {
				e.mu.Lock()
				for len(stack) == 0 && busy > 0 && !abort {
					cond.Wait()
				}
				if abort || len(stack) == 0 {
					cond.Broadcast()
					e.mu.Unlock()
					return
				}
				if e.Stats.Executions%512 == 511 && memExceeded() {
					e.Stats.MemStop = true
				}
				if e.Stats.MemStop || (e.MaxExec > 0 && e.Stats.Executions >= e.MaxExec) || (e.Stop != nil && e.Stop()) {
					e.Stats.Capped = true
					abort = true
					cond.Broadcast()
					e.mu.Unlock()
					return
				}
				prefix := stack[len(stack)-1]
				stack = stack[:len(stack)-1]
				busy++
				e.Stats.Executions++
				e.mu.Unlock()

				c := &Chooser{prefix: prefix, ex: e, Worker: wi}
				cont := run(c)

				e.mu.Lock()
				busy--
				if len(c.Points) < len(prefix) {
					e.mu.Unlock()
					panic(Divergence{fmt.Sprintf("execution ended at point %d inside a prefix of length %d", len(c.Points), len(prefix))})
				}
				if len(c.Points) > e.Stats.MaxDepth {
					e.Stats.MaxDepth = len(c.Points)
				}
				if len(prefix) == 0 {
					e.Stats.Transitions += int64(len(c.Points))
				} else {
					e.Stats.Transitions += int64(len(c.Points) - len(prefix) + 1)
				}
				if !cont {
					abort = true
					cond.Broadcast()
					e.mu.Unlock()
					return
				}
				used := 0
				choices := c.Choices()
				for i, p := range c.Points {
					if i >= len(prefix) {
						// push alternatives; deepest last so that they are popped first
						for alt := p.N - 1; alt >= 1; alt-- {
							cost := 0
							if p.Costs != nil {
								cost = p.Costs[alt]
							}
							if e.Bound >= 0 && used+cost > e.Bound {
								continue
							}
							np := make([]int, i+1)
							copy(np, choices[:i])
							np[i] = alt
							stack = append(stack, np)
						}
					}
					if p.Costs != nil {
						used += p.Costs[p.Choice]
					}
				}
				cond.Broadcast()
				e.mu.Unlock()
			}
		}(wi)
	}
	wg.Wait()
	if panicVal != nil {
		panic(panicVal)
	}
}
