package threx

import (
	"bytes"
	"fmt"
	"os"
	"os/exec"
	"sort"
	"strings"
	"time"

	"github.com/resonatehq/resonate/internal/verif/runner"
)

// The free-running pass. The cooperative scheduler's hand-offs are happens-before edges,
// so a race detector sees nothing under it; and the exploration treats the code between
// two channel / mutex operations as atomic. That assumption is checked separately: the
// same scenario bodies run with real goroutines and native channel operations (the shim
// in pass-through mode) in a binary built with -race. This pass samples schedules; it
// decides nothing about the property by itself, it reports unsynchronised accesses in the
// code under test, which would make the explored interleavings an under-approximation.

type freeRunner interface{ FreeRun() }

// FreeRunMain is what the -race binary executes (THREX_FREERUN=<iterations>).
func FreeRunMain(prop string, iters int) {
	f, ok := Specs[prop]
	if !ok {
		fmt.Fprintln(os.Stderr, "freerun: unknown property", prop)
		os.Exit(2)
	}
	budget := 100 * time.Second
	if iters <= 30 {
		budget = 30 * time.Second
	}
	deadline := time.Now().Add(budget)
	n := 0
	for _, j := range f().Jobs("quick") {
		fr, ok := j.(freeRunner)
		if !ok || strings.HasSuffix(j.Name(), "/delay-bounded") && hasPlain(f().Jobs("quick"), strings.TrimSuffix(j.Name(), "/delay-bounded")) {
			continue
		}
		for i := 0; i < 3 && time.Now().Before(deadline); i++ {
			fr.FreeRun()
			n++
		}
	}
	// every scenario got a few runs; the rest of the budget goes round robin
	for i := 3; i < iters && time.Now().Before(deadline); i++ {
		for _, j := range f().Jobs("quick") {
			if fr, ok := j.(freeRunner); ok && time.Now().Before(deadline) {
				fr.FreeRun()
				n++
			}
		}
	}
	fmt.Fprintf(os.Stderr, "FREERUN-ITERATIONS %d\n", n)
}

func hasPlain(jobs []runner.Job, name string) bool {
	for _, j := range jobs {
		if j.Name() == name {
			return true
		}
	}
	return false
}

type raceReport struct {
	funcs []string // the two racing accesses (function names)
	class string   // production | third-party | harness
}

func classify(file string) string {
	switch {
	case strings.Contains(file, "/internal/verif/") || strings.Contains(file, "zz_verif_hook.go"):
		return "harness"
	case strings.Contains(file, "/pkg/mod/") || strings.Contains(file, "/usr/lib/go"):
		return "third-party"
	default:
		return "production"
	}
}

func parseRaces(out string) []raceReport {
	var res []raceReport
	for _, blk := range strings.Split(out, "==================") {
		if !strings.Contains(blk, "WARNING: DATA RACE") {
			continue
		}
		lines := strings.Split(blk, "\n")
		var fns, files []string
		for i, l := range lines {
			t := strings.TrimSpace(l)
			if (strings.HasPrefix(t, "Write at") || strings.HasPrefix(t, "Read at") || strings.HasPrefix(t, "Previous write at") || strings.HasPrefix(t, "Previous read at") || strings.HasPrefix(t, "Atomic") || strings.HasPrefix(t, "Previous atomic")) && i+2 < len(lines) {
				fns = append(fns, strings.TrimSuffix(strings.TrimSpace(lines[i+1]), "()"))
				files = append(files, strings.TrimSpace(lines[i+2]))
			}
		}
		if len(fns) < 2 {
			continue
		}
		// the class of a report is the weakest claim its two accesses support: a race between
		// production code and harness bookkeeping is the harness's
		cl := "production"
		for _, f := range files[:2] {
			switch classify(f) {
			case "harness":
				cl = "harness"
			case "third-party":
				if cl != "harness" {
					cl = "third-party"
				}
			}
		}
		fs := []string{fns[0], fns[1]}
		sort.Strings(fs)
		res = append(res, raceReport{funcs: fs, class: cl})
	}
	return res
}

var raceSummary = map[string]any{}

// racePass runs the -race binary (built by the check next to the engine) and turns
// races inside the code under test into violations of the property.
func racePass(prop string) func(tier string, results []*runner.JobResult) []runner.Violation {
	return func(tier string, results []*runner.JobResult) []runner.Violation {
		bin := runner.Home() + "/bin/threx-race"
		if _, err := os.Stat(bin); err != nil || os.Getenv("THREX_NORACE") != "" {
			raceSummary["race_pass"] = "not run (no -race binary)"
			return nil
		}
		iters := "30"
		if tier == "thorough" {
			iters = "200"
		}
		cmd := exec.Command(bin)
		cmd.Env = append(os.Environ(), "THREX_FREERUN="+iters, "VERIF_PROP="+prop, "GORACE=halt_on_error=0 exitcode=0")
		var buf bytes.Buffer
		cmd.Stderr = &buf
		cmd.Stdout = &buf
		done := make(chan error, 1)
		if err := cmd.Start(); err != nil {
			raceSummary["race_pass"] = "not run: " + err.Error()
			return nil
		}
		go func() { done <- cmd.Wait() }()
		var err error
		select {
		case err = <-done:
		case <-time.After(240 * time.Second):
			_ = cmd.Process.Kill()
			err = fmt.Errorf("timed out")
		}
		out := buf.String()
		reps := parseRaces(out)
		counts := map[string]int{}
		distinct := map[string]string{}
		for _, r := range reps {
			counts[r.class]++
			distinct[r.class+": "+strings.Join(r.funcs, " <-> ")] = r.class
		}
		var list []string
		for k := range distinct {
			list = append(list, k)
		}
		sort.Strings(list)
		it := ""
		if i := strings.Index(out, "FREERUN-ITERATIONS "); i >= 0 {
			it = strings.TrimSpace(strings.SplitN(out[i+len("FREERUN-ITERATIONS "):], "\n", 2)[0])
		}
		raceSummary["race_pass"] = map[string]any{"iterations_free_running": it, "reports_in_code_under_test": counts["production"], "reports_in_third_party_modules": counts["third-party"], "reports_in_harness_bookkeeping": counts["harness"], "distinct": list}
		if err != nil {
			tailStr := out
			if len(tailStr) > 1500 {
				tailStr = tailStr[len(tailStr)-1500:]
			}
			raceSummary["race_pass_error"] = err.Error() + ": " + tailStr
			fmt.Fprintf(os.Stderr, "note: the free-running -race pass did not finish (%v); it decides nothing, see evidence\n", err)
		}
		var viol []runner.Violation
		seen := map[string]bool{}
		for _, r := range reps {
			if r.class != "production" {
				continue
			}
			sig := prop + ":data-race:" + strings.Join(r.funcs, "|")
			if seen[sig] {
				continue
			}
			seen[sig] = true
			viol = append(viol, runner.Violation{Sig: sig, Job: prop + "/free-running -race pass", Msg: "data race between " + r.funcs[0] + " and " + r.funcs[1] + ": the code between two channel operations is not atomic with respect to other threads, contrary to what the exploration assumes", Replay: map[string]any{"job": prop + "/race", "report": r.funcs}})
		}
		return viol
	}
}

func raceExtra(tier string, results []*runner.JobResult) map[string]any {
	out := map[string]any{}
	for k, v := range raceSummary {
		out[k] = v
	}
	return out
}
