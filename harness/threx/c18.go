// Package threx is engine C: preemption-bounded exploration of thread interleavings
// of the production queue / loop / worker code (C12) and of the poll transport (C18),
// whose channel operations were routed through the vch scheduler by the rewriter.
package threx

import (
	"context"
	"errors"
	"fmt"
	"io"
	"log/slog"
	"net/http"
	"os"
	"sort"
	"strings"
	"sync"
	"time"

	"github.com/prometheus/client_golang/prometheus"
	"github.com/resonatehq/resonate/internal/aio"
	"github.com/resonatehq/resonate/internal/app/plugins/poll"
	"github.com/resonatehq/resonate/internal/metrics"
	"github.com/resonatehq/resonate/internal/verif/runner"
	"github.com/resonatehq/resonate/internal/verif/vch"
	"github.com/resonatehq/resonate/internal/verif/vx"
	"github.com/resonatehq/resonate/pkg/message"
)

func init() {
	slog.SetDefault(slog.New(slog.NewTextHandler(io.Discard, &slog.HandlerOptions{Level: slog.Level(100)})))
}

// ctlCtx is a context whose Done channel is closed through the shim, so that the
// scheduler knows when the handler's `case <-r.Context().Done()` is ready.
type ctlCtx struct {
	context.Context
	done chan struct{}
	once sync.Once
}

func (c *ctlCtx) cancel() { c.once.Do(func() { vch.Close(c.done) }) }

func (c *ctlCtx) Done() <-chan struct{} { return c.done }
func (c *ctlCtx) Err() error            { return context.Canceled }

type recorder struct {
	failAt int // the n-th body write fails (0 = never): a broken stream
	writes int
	mu     sync.Mutex
	group  string
	id     string
	status int
	bodies []string
	hdr    http.Header
	ended  bool
}

func (r *recorder) Header() http.Header { return r.hdr }
func (r *recorder) WriteHeader(c int)   { r.status = c }
func (r *recorder) Flush()              {}
func (r *recorder) Write(b []byte) (int, error) {
	r.mu.Lock()
	defer r.mu.Unlock()
	r.writes++
	if r.failAt > 0 && r.writes >= r.failAt {
		return 0, errors.New("broken pipe")
	}
	r.bodies = append(r.bodies, string(b))
	return len(b), nil
}

type pmsg struct {
	typ        message.Type
	group, id  string
	body       string
	done       int
	ok         bool
	err        error
	enqueued   bool
}

type connSpec struct {
	group, id  string
	disconnect bool // the client goes away at some point
	delay      int  // connect after that many messages were sent (reconnects)
	writeFail  int  // the n-th write to the stream fails (0 = never)
}

type C18Scenario struct {
	Name     string
	MaxConn  int
	Buffer   int
	Conns    []connSpec
	Msgs     []pmsg
	Stop     bool
	Settle   bool // the senders start only after the initial connections are registered
	Bound    int
}

type C18Job struct{ Sc C18Scenario }

func (j *C18Job) Name() string { return "C18/" + j.Sc.Name }

type c18Outcome struct {
	viol    []string
	summary string
}

func (j *C18Job) runOnce(ch vch.Chooser, keepTrace bool) (*c18Outcome, *vch.Scheduler) {
	return j.run(ch, keepTrace, false)
}

// FreeRun executes the scenario body once with real goroutines and native channel
// operations (shim in pass-through mode): the body of the separate -race pass.
func (j *C18Job) FreeRun() { j.run(nil, false, true) }

func (j *C18Job) run(ch vch.Chooser, keepTrace bool, free bool) (*c18Outcome, *vch.Scheduler) {
	sc := j.Sc
	out := &c18Outcome{}
	m := metrics.New(prometheus.NewRegistry())
	p, err := poll.New(nil, m, &poll.Config{Size: 4, BufferSize: sc.Buffer, MaxConnections: sc.MaxConn, Addr: "127.0.0.1:0", Timeout: time.Second})
	if err != nil {
		out.viol = append(out.viol, "harness: "+err.Error())
		return out, nil
	}
	p.VerifCloseListener()
	msgs := make([]*pmsg, len(sc.Msgs))
	for i := range sc.Msgs {
		x := sc.Msgs[i]
		msgs[i] = &x
	}
	recs := make([]*recorder, len(sc.Conns))
	ctxKey := make([]uintptr, len(sc.Conns))
	var allHandlers []*vch.Thread
	var allCtx []*ctlCtx
	body := func() {
		var handlers []*vch.Thread
		// http.Server.Shutdown: waits until the active handlers have returned, or gives up
		// after the configured timeout (an environment action of the explorer)
		vch.SetShutdownWait(func(context.Context) error {
			if vch.WaitCond("http.Shutdown(handlers gone)", func() bool {
				for _, h := range handlers {
					if !h.Finished() {
						return false
					}
				}
				return true
			}, time.Second) {
				return context.DeadlineExceeded
			}
			return nil
		})
		worker := vch.GoNamed("worker", func() { p.VerifWorker().Start() })
		var ctxs []*ctlCtx
		startConn := func(i int) {
			c := sc.Conns[i]
			rec := &recorder{group: c.group, id: c.id, hdr: http.Header{}, failAt: c.writeFail}
			recs[i] = rec
			cx := &ctlCtx{Context: context.Background(), done: make(chan struct{})}
			ctxs = append(ctxs, cx)
			allCtx = append(allCtx, cx)
			ctxKey[i] = vch.KeyOf(cx.done)
			req, _ := http.NewRequest("GET", "http://x/"+c.group+"/"+c.id, nil)
			req = req.WithContext(cx)
			handlers = append(handlers, vch.GoNamed(fmt.Sprintf("conn%d(%s/%s)", i, c.group, c.id), func() {
				p.VerifHandler().ServeHTTP(rec, req)
				rec.mu.Lock()
				rec.ended = true
				rec.mu.Unlock()
			}))
			allHandlers = handlers
			if c.disconnect {
				vch.GoNamed(fmt.Sprintf("client%d-leaves", i), func() { cx.cancel() })
			}
		}
		for i, c := range sc.Conns {
			if c.delay == 0 {
				startConn(i)
			}
		}
		if sc.Settle {
			want := 0
			ids := map[string]bool{}
			for _, c := range sc.Conns {
				if c.delay == 0 && !ids[c.group+"/"+c.id] {
					ids[c.group+"/"+c.id] = true
					want++
				}
			}
			if want > sc.MaxConn {
				want = sc.MaxConn
			}
			vch.WaitCond("initial connections registered", func() bool { return p.VerifRegistered() >= want }, 0)
		}
		var senders []*vch.Thread
		for i, mm := range msgs {
			i, mm := i, mm
			senders = append(senders, vch.GoNamed(fmt.Sprintf("send%d", i), func() {
				data := fmt.Sprintf(`{"group":%q,"id":%q}`, mm.group, mm.id)
				if mm.id == "" {
					data = fmt.Sprintf(`{"group":%q}`, mm.group)
				}
				mm.enqueued = p.Enqueue(&aio.Message{Type: mm.typ, Data: []byte(data), Body: []byte(mm.body), Done: func(ok bool, err error) {
					mm.done++
					mm.ok, mm.err = ok, err
				}})
			}))
			for ci, c := range sc.Conns {
				if c.delay == i+1 {
					startConn(ci)
				}
			}
		}
		for _, t := range senders {
			vch.Join(t)
		}
		if sc.Stop {
			vch.GoNamed("stop", func() { _ = p.Stop() })
		}
		// the run ends when every thread is finished or blocked: the scheduler reports
		// blocked handler / worker threads as quiescence, which is fine without Stop
		if sc.Stop {
			vch.Join(worker)
			for _, h := range handlers {
				vch.Join(h)
			}
		}
	}
	if free {
		body()
		// let every goroutine of this iteration end: clients leave, the transport stops
		if !sc.Stop {
			_ = p.Stop()
		}
		for _, cx := range allCtx {
			cx.cancel()
		}
		for _, h := range allHandlers {
			vch.Join(h)
		}
		return out, nil
	}
	s := vch.Run(ch, vch.Options{MaxSteps: 4000, KeepTrace: keepTrace, KeepEvents: true}, body)
	// ---- oracle ----
	for _, pn := range s.Panics {
		// a panic of a handler goroutine is recovered by net/http; after Shutdown gave up
		// waiting, the registry channels are closed under the feet of the remaining handlers
		if strings.HasPrefix(pn, "conn") && s.TimedOut > 0 && strings.Contains(pn, "closed channel") {
			continue
		}
		if strings.HasPrefix(pn, "conn") {
			out.viol = append(out.viol, "handler panic: "+pn)
		} else {
			out.viol = append(out.viol, "panic: "+pn)
		}
	}
	if s.Deadlock != "" && (strings.Contains(s.Deadlock, "livelock") || strings.Contains(s.Deadlock, "step bound")) {
		out.viol = append(out.viol, s.Deadlock)
	} else if s.Deadlock != "" && sc.Stop && s.TimedOut == 0 {
		out.viol = append(out.viol, "deadlock: "+s.Deadlock)
	}
	if len(s.Leaked) > 0 {
		out.viol = append(out.viol, "harness: threads blocked outside the shim: "+strings.Join(s.Leaked, ","))
	}
	if !s.Cut && !strings.Contains(s.Deadlock, "step bound") {
		out.viol = append(out.viol, j.model(s, p, ctxKey, msgs, recs)...)
	}
	var sum []string
	for i, mm := range msgs {
		if !mm.enqueued {
			sum = append(sum, fmt.Sprintf("m%d:queue-full", i))
			continue
		}
		if mm.done > 1 {
			out.viol = append(out.viol, fmt.Sprintf("message %d: Done called %d times", i, mm.done))
		}
		var got []int
		for ri, r := range recs {
			if r == nil {
				continue
			}
			for _, b := range r.bodies {
				if b == "data: "+mm.body+"\n\n" {
					got = append(got, ri)
				}
			}
		}
		if len(got) > 1 {
			out.viol = append(out.viol, fmt.Sprintf("message %d (%s to %s/%s) was handed to %d listeners", i, mm.typ, mm.group, mm.id, len(got)))
		}
		for _, ri := range got {
			r := recs[ri]
			if r.group != mm.group {
				out.viol = append(out.viol, fmt.Sprintf("message %d addressed to group %q was handed to a listener of group %q", i, mm.group, r.group))
			}
			if mm.typ == message.Notify && r.id != mm.id {
				out.viol = append(out.viol, fmt.Sprintf("notification %d addressed to %s/%s was handed to listener %s/%s", i, mm.group, mm.id, r.group, r.id))
			}
			if mm.done == 1 && !mm.ok {
				out.viol = append(out.viol, fmt.Sprintf("message %d was reported NOT delivered but listener %s/%s received it", i, r.group, r.id))
			}
			// the addressed id was connected the whole time and never left: it must be the one
			if r.id != mm.id && mm.id != "" {
				for ci, c := range sc.Conns {
					if sc.Settle && c.group == mm.group && c.id == mm.id && !c.disconnect && c.writeFail == 0 && c.delay == 0 && recs[ci] != nil && recs[ci].status == 0 && stable(sc, ci) {
						out.viol = append(out.viol, fmt.Sprintf("message %d addressed to %s/%s went to %s/%s although %s was connected throughout", i, mm.group, mm.id, r.group, r.id, mm.id))
					}
				}
			}
		}
		if mm.done == 1 && mm.ok && len(got) == 0 {
			// accepted by a connection buffer; it may die with the connection only if that
			// connection was closed (disconnect, replacement, shutdown, over the limit)
			lost := true
			for ci, c := range sc.Conns {
				if c.group == mm.group && (c.disconnect || c.writeFail > 0 || sc.Stop || !stable(sc, ci)) {
					lost = false
				}
			}
			if lost {
				out.viol = append(out.viol, fmt.Sprintf("message %d was reported delivered but no listener of group %q received it although none of them went away", i, mm.group))
			}
		}
		if sc.Stop && mm.done == 0 {
			// after Stop returned the worker has drained or dropped the queue; an accepted
			// message must have been answered unless it was still queued at shutdown
			sum = append(sum, fmt.Sprintf("m%d:unanswered-at-stop got=%v", i, got))
		} else {
			sum = append(sum, fmt.Sprintf("m%d:done=%d ok=%v got=%v", i, mm.done, mm.ok, got))
		}
	}
	for ri, r := range recs {
		if r != nil {
			sum = append(sum, fmt.Sprintf("c%d:status=%d n=%d ended=%v", ri, r.status, len(r.bodies), r.ended))
		}
	}
	out.summary = strings.Join(sum, " ")
	return out, s
}

// model replays what the worker saw (in the order it saw it) on a reference registry
// written from the property statement, and compares every decision of the real worker.
func (j *C18Job) model(s *vch.Scheduler, p *poll.Poll, ctxKey []uintptr, msgs []*pmsg, recs []*recorder) (viol []string) {
	sc := j.Sc
	a, b, c := p.VerifChans()
	sqK, conK, disK := vch.KeyOf(a), vch.KeyOf(b), vch.KeyOf(c)
	connOf := func(thread string) int {
		var i int
		if _, err := fmt.Sscanf(thread, "conn%d(", &i); err == nil {
			return i
		}
		return -1
	}
	// the stream channel of every handler: the one channel of its selects that is none of the known ones
	chConn := map[uintptr]int{}
	for _, e := range s.Events {
		if e.Kind != vch.EvPublish {
			continue
		}
		if ci := connOf(e.Thread); ci >= 0 {
			for _, k := range e.Keys {
				if k != 0 && k != conK && k != disK && k != ctxKey[ci] {
					chConn[k] = ci
				}
			}
		}
	}
	type reg struct{ ci int }
	groups := map[string][]int{}
	total := 0
	occ := make([]int, len(sc.Conns))
	mClosed := make([]bool, len(sc.Conns))
	rClosed := make([]bool, len(sc.Conns))
	seenByWorker := make([]bool, len(sc.Conns))
	goneEarly := make([]bool, len(sc.Conns))
	accepted := make([]int, len(msgs)) // 0 not processed, 1 accepted, 2 refused
	target := make([]int, len(msgs))
	fifo := map[uintptr][]string{}
	shutdown, exited := false, false
	remove := func(ci int) bool {
		g := sc.Conns[ci].group
		for k, x := range groups[g] {
			if x == ci {
				groups[g] = append(append([]int{}, groups[g][:k]...), groups[g][k+1:]...)
				total--
				return true
			}
		}
		return false
	}
	cur := -1
	var curTargets []int
	var lastPub []uintptr
	bad := func(f string, a ...any) { viol = append(viol, "model: "+fmt.Sprintf(f, a...)) }
	name := func(ci int) string { return fmt.Sprintf("listener#%d(%s/%s)", ci, sc.Conns[ci].group, sc.Conns[ci].id) }
	finishMsg := func() {
		if cur >= 0 {
			if len(curTargets) > 0 {
				bad("message %d (%s to %s/%s) was not offered to any listener although %d listener(s) of the group were registered and eligible", cur, msgs[cur].typ, msgs[cur].group, msgs[cur].id, len(curTargets))
			}
			accepted[cur] = 2
			cur = -1
		}
	}
	for _, e := range s.Events {
		if e.Thread != "worker" {
			switch {
			case e.Kind == vch.EvSend && (e.Key == sqK || e.Key == conK || e.Key == disK):
				fifo[e.Key] = append(fifo[e.Key], e.Thread)
			case e.Kind == vch.EvRecv && e.Ok:
				if ci, ok := chConn[e.Key]; ok && ci == connOf(e.Thread) {
					occ[ci]--
				}
			}
			continue
		}
		switch e.Kind {
		case vch.EvPublish:
			lastPub = e.Keys
		case vch.EvRecv:
			if e.Key != sqK && e.Key != conK && e.Key != disK {
				continue
			}
			finishMsg()
			if !e.Ok {
				if e.Key != sqK {
					exited = true // the registry queues were closed (Stop): the worker returns
				}
				if e.Key == sqK {
					shutdown = true
					for g, l := range groups {
						for _, ci := range l {
							mClosed[ci] = true
						}
						delete(groups, g)
					}
					total = 0
				}
				continue
			}
			if len(fifo[e.Key]) == 0 {
				bad("harness: the worker received a value nobody sent")
				return
			}
			from := fifo[e.Key][0]
			fifo[e.Key] = fifo[e.Key][1:]
			switch e.Key {
			case conK:
				ci := connOf(from)
				seenByWorker[ci] = true
				if goneEarly[ci] {
					mClosed[ci] = true
					continue
				}
				// a reconnect with the same id replaces the older connection
				for _, x := range append([]int{}, groups[sc.Conns[ci].group]...) {
					if sc.Conns[x].id == sc.Conns[ci].id {
						remove(x)
						mClosed[x] = true
					}
				}
				if total >= sc.MaxConn || shutdown {
					mClosed[ci] = true
				} else {
					groups[sc.Conns[ci].group] = append(groups[sc.Conns[ci].group], ci)
					total++
				}
			case disK:
				ci := connOf(from)
				if remove(ci) {
					mClosed[ci] = true
				} else if !seenByWorker[ci] {
					// the disconnect overtook the connect (separate queues): the listener is gone,
					// its connect must not register it any more
					goneEarly[ci] = true
				}
			case sqK:
				var mi int
				fmt.Sscanf(from, "send%d", &mi)
				cur = mi
				curTargets = nil
				mm := msgs[mi]
				l := groups[mm.group]
				exact := -1
				for _, x := range l {
					if mm.id != "" && sc.Conns[x].id == mm.id {
						exact = x
					}
				}
				switch {
				case exact >= 0:
					curTargets = []int{exact}
				case mm.typ == message.Notify:
				default:
					curTargets = append([]int{}, l...)
				}
			}
		case vch.EvSend, vch.EvDefault:
			// the non-blocking hand-over of Process: a select on one stream channel
			if len(lastPub) != 1 || lastPub[0] == sqK || lastPub[0] == conK || lastPub[0] == disK {
				continue
			}
			ci, ok := chConn[lastPub[0]]
			if !ok {
				bad("harness: the worker offered a message to a channel that belongs to no handler")
				return
			}
			if cur < 0 {
				bad("the worker offered something to %s without a message being processed", name(ci))
				continue
			}
			mm := msgs[cur]
			in := false
			for _, x := range curTargets {
				if x == ci {
					in = true
				}
			}
			if !in {
				var el []string
				for _, x := range curTargets {
					el = append(el, name(x))
				}
				why := "it is not registered (replaced, disconnected, rejected or never connected)"
				for _, x := range groups[sc.Conns[ci].group] {
					if x == ci {
						why = "another listener has the addressed id, or it is a notification for another id"
					}
				}
				if sc.Conns[ci].group != mm.group {
					why = "it belongs to another group"
				}
				bad("message %d (%s to %s/%s) was offered to %s: %s; eligible: [%s]", cur, mm.typ, mm.group, mm.id, name(ci), why, strings.Join(el, " "))
			}
			if e.Kind == vch.EvSend {
				occ[ci]++
				accepted[cur] = 1
				target[cur] = ci
			} else {
				if occ[ci] < sc.Buffer && !rClosed[ci] {
					bad("message %d was refused by %s although its buffer had room (%d of %d)", cur, name(ci), occ[ci], sc.Buffer)
				}
				accepted[cur] = 2
			}
			cur = -1
			lastPub = nil
		case vch.EvClose:
			if ci, ok := chConn[e.Key]; ok {
				rClosed[ci] = true
			}
		}
	}
	finishMsg()
	quiet := s.Deadlock == "" || strings.HasPrefix(s.Deadlock, "no thread can run")
	for i, mm := range msgs {
		switch accepted[i] {
		case 1:
			if mm.done != 1 || !mm.ok {
				bad("message %d was accepted by %s but Done reported (%d calls, ok=%v)", i, name(target[i]), mm.done, mm.ok)
			}
			got := false
			for _, bd := range recs[target[i]].bodies {
				if bd == "data: "+mm.body+"\n\n" {
					got = true
				}
			}
			if !got && !sc.Conns[target[i]].disconnect && sc.Conns[target[i]].writeFail == 0 && quiet && s.TimedOut == 0 {
				bad("message %d was accepted by %s, whose client never went away, but was never written to it", i, name(target[i]))
			}
		case 2:
			if mm.done != 1 || mm.ok {
				bad("message %d was not accepted by any listener but Done reported (%d calls, ok=%v)", i, mm.done, mm.ok)
			}
		}
	}
	if quiet {
		for ci := range sc.Conns {
			if !seenByWorker[ci] {
				continue
			}
			recs[ci].mu.Lock()
			ended := recs[ci].ended
			recs[ci].mu.Unlock()
			if ended && !mClosed[ci] && !shutdown && !exited {
				bad("%s is gone (its handler returned) but it never unregistered: it is still the registered listener and keeps being offered messages", name(ci))
			}
			if mClosed[ci] && !rClosed[ci] {
				bad("%s was replaced / disconnected / rejected / shut down but its stream was never closed", name(ci))
			}
			if !mClosed[ci] && rClosed[ci] {
				bad("the stream of %s was closed although it is still the registered listener", name(ci))
			}
		}
	}
	return viol
}

// stable: connection ci is never replaced by a later connection with the same group/id
func stable(sc C18Scenario, ci int) bool {
	for k, c := range sc.Conns {
		if k != ci && c.group == sc.Conns[ci].group && c.id == sc.Conns[ci].id {
			return false
		}
	}
	return len(sc.Conns) <= sc.MaxConn
}

func sigOf(v string) string {
	if strings.HasPrefix(v, "model: ") {
		for _, p := range []string{"harness", "was offered to", "not offered", "refused", "Done reported", "never written", "never closed", "was closed although", "never unregistered", "without a message"} {
			if strings.Contains(v, p) {
				return "model-" + strings.ReplaceAll(p, " ", "-")
			}
		}
	}
	for _, p := range []string{"handler panic", "panic", "livelock", "step bound", "deadlock", "harness", "Done called", "handed to", "NOT delivered", "connected throughout", "reported delivered", "notification"} {
		if strings.Contains(v, p) {
			return strings.ReplaceAll(p, " ", "-")
		}
	}
	return "other"
}

func (j *C18Job) Run(deadline time.Time) *runner.JobResult {
	res := &runner.JobResult{Name: j.Name(), Counters: map[string]int64{}}
	outcomes := map[string]bool{}
	seen := map[string]bool{}
	ex := &vx.Explorer{Bound: j.Sc.Bound, Prune: os.Getenv("THREX_NOPRUNE") == "", Stop: func() bool { return !deadline.IsZero() && time.Now().After(deadline) }}
	ex.Explore(func(ch *vx.Chooser) bool {
		runner.Trace(fmt.Sprintf("JOB %s PREFIX %v", j.Name(), ch.Prefix()))
		o, sx := j.runOnce(ch, false)
		if sx != nil && sx.Cut {
			return true // an equal state was expanded with at least this much budget left
		}
		outcomes[o.summary] = true
		for _, v := range o.viol {
			sig := "C18:" + sigOf(v)
			if seen[sig] {
				continue
			}
			seen[sig] = true
			rv := runner.Violation{Sig: sig, Msg: v, Job: j.Name()}
			choices := ch.Choices()
			var tr []string
			for k := 0; k < 3; k++ {
				o2, s2 := j.runOnce(vx.NewChooser(choices), true)
				found := false
				for _, v2 := range o2.viol {
					if "C18:"+sigOf(v2) == sig {
						found = true
					}
				}
				if !found {
					rv.Flaky = true
				}
				if s2 != nil {
					tr = s2.Trace
				}
			}
			rv.Replay = map[string]any{"job": j.Name(), "choices": choices, "schedule": tr}
			res.Violations = append(res.Violations, rv)
		}
		if len(res.Samples) < 1 {
			res.Samples = append(res.Samples, map[string]any{"schedule": ch.Labels()})
		}
		return len(seen) < 4
	})
	res.Executions, res.Transitions, res.MaxDepth, res.Capped = ex.Stats.Executions, ex.Stats.Transitions, ex.Stats.MaxDepth, ex.Stats.Capped
	if ex.Stats.MemStop {
		res.Notes = append(res.Notes, "stopped at the memory limit of the worker process")
	}
	res.States = int64(len(outcomes))
	for o := range outcomes {
		res.Outcomes = append(res.Outcomes, o)
	}
	sort.Strings(res.Outcomes)
	if len(res.Outcomes) > 200 {
		res.Outcomes = res.Outcomes[:200]
	}
	return res
}

func C18Jobs(tier string) []runner.Job {
	b := 2
	if tier == "thorough" {
		b = 3
	}
	inv := func(g, id, body string) pmsg { return pmsg{typ: message.Invoke, group: g, id: id, body: body} }
	ntf := func(g, id, body string) pmsg { return pmsg{typ: message.Notify, group: g, id: id, body: body} }
	scs := []C18Scenario{
		{Name: "two-listeners-one-group/invoke-to-id", MaxConn: 3, Buffer: 1, Conns: []connSpec{{"g1", "a", false, 0, 0}, {"g1", "b", false, 0, 0}}, Msgs: []pmsg{inv("g1", "a", "m0"), inv("g1", "a", "m1")}, Bound: b},
		{Name: "two-groups/invoke+notify", MaxConn: 3, Buffer: 1, Conns: []connSpec{{"g1", "a", false, 0, 0}, {"g2", "a", false, 0, 0}}, Msgs: []pmsg{inv("g1", "zz", "m0"), ntf("g2", "a", "m1")}, Bound: b},
		{Name: "notify-absent-id", MaxConn: 3, Buffer: 2, Conns: []connSpec{{"g1", "a", false, 0, 0}, {"g1", "b", false, 0, 0}}, Msgs: []pmsg{ntf("g1", "c", "m0"), ntf("g1", "b", "m1")}, Bound: b},
		{Name: "disconnect-while-sending", MaxConn: 3, Buffer: 1, Conns: []connSpec{{"g1", "a", true, 0, 0}, {"g1", "b", false, 0, 0}}, Msgs: []pmsg{inv("g1", "a", "m0"), inv("g1", "a", "m1")}, Bound: b},
		{Name: "reconnect-same-id", MaxConn: 3, Buffer: 1, Conns: []connSpec{{"g1", "a", false, 0, 0}, {"g1", "a", false, 1, 0}}, Msgs: []pmsg{inv("g1", "a", "m0"), inv("g1", "a", "m1")}, Bound: b},
		{Name: "over-the-limit", MaxConn: 1, Buffer: 1, Conns: []connSpec{{"g1", "a", false, 0, 0}, {"g1", "b", false, 0, 0}}, Msgs: []pmsg{inv("g1", "b", "m0")}, Bound: b},
		{Name: "buffer-full", MaxConn: 2, Buffer: 1, Conns: []connSpec{{"g1", "a", false, 0, 0}}, Msgs: []pmsg{inv("g1", "a", "m0"), inv("g1", "a", "m1"), inv("g1", "a", "m2")}, Bound: b},
		{Name: "stop-while-busy", MaxConn: 3, Buffer: 1, Conns: []connSpec{{"g1", "a", false, 0, 0}, {"g2", "b", true, 0, 0}}, Msgs: []pmsg{inv("g1", "a", "m0"), ntf("g2", "b", "m1")}, Stop: true, Bound: b},
		{Name: "stop-reconnect-disconnect", MaxConn: 2, Buffer: 1, Conns: []connSpec{{"g1", "a", true, 0, 0}, {"g1", "a", false, 1, 0}}, Msgs: []pmsg{inv("g1", "", "m0")}, Stop: true, Bound: b},
		{Name: "reconnect-then-old-client-leaves", MaxConn: 3, Buffer: 1, Conns: []connSpec{{"g1", "a", true, 0, 0}, {"g1", "a", false, 1, 0}, {"g1", "b", false, 0, 0}}, Msgs: []pmsg{inv("g1", "zz", "m0"), inv("g1", "a", "m1")}, Bound: b},
		{Name: "reconnect-at-the-limit", MaxConn: 2, Buffer: 1, Conns: []connSpec{{"g1", "a", false, 0, 0}, {"g1", "b", false, 0, 0}, {"g1", "a", false, 1, 0}}, Msgs: []pmsg{ntf("g1", "b", "m0"), ntf("g1", "a", "m1")}, Bound: b},
		{Name: "three-listeners-prefer-id", MaxConn: 3, Buffer: 1, Conns: []connSpec{{"g1", "a", false, 0, 0}, {"g1", "b", false, 0, 0}, {"g1", "c", false, 0, 0}}, Msgs: []pmsg{inv("g1", "c", "m0")}, Bound: b},
		{Name: "stream-write-fails", MaxConn: 3, Buffer: 1, Conns: []connSpec{{"g1", "a", false, 0, 1}, {"g1", "b", false, 0, 0}}, Msgs: []pmsg{inv("g1", "a", "m0"), inv("g1", "a", "m1")}, Bound: b},
		{Name: "no-id-random-pick", MaxConn: 3, Buffer: 1, Conns: []connSpec{{"g1", "a", false, 0, 0}, {"g1", "b", false, 0, 0}, {"g2", "c", false, 0, 0}}, Msgs: []pmsg{inv("g1", "", "m0"), inv("g1", "q", "m1")}, Bound: b},
	}
	if tier != "thorough" {
		for i := range scs {
			switch scs[i].Name {
			case "stop-while-busy":
				scs[i].Msgs = scs[i].Msgs[:1]
			case "reconnect-then-old-client-leaves":
				scs[i].Msgs = scs[i].Msgs[1:]
			}
		}
	}
	var jobs []runner.Job
	for _, sc := range scs {
		jobs = append(jobs, &C18Job{Sc: sc})
		if sc.Conns[0].delay == 0 && !sc.Stop {
			st := sc
			st.Name += "/settled"
			st.Settle = true
			jobs = append(jobs, &C18Job{Sc: st})
		}
	}
	return jobs
}

var Specs = map[string]func() *runner.Spec{}

func init() {
	Specs["C18"] = func() *runner.Spec {
		return &runner.Spec{
			Property: "C18", Engine: "threx", Level: "model_checking",
			Jobs: C18Jobs,
			Rule:   "the real PollWorker.Start, 2-3 real ServeHTTP handler threads on recording response writers (connect, client going away through a cancellable context, reconnect with the same id, connection over the limit), 1-3 sender threads calling Enqueue with invoke / notify messages for present, absent and unspecified ids over two groups, and Poll.Stop, connection buffer 1-2, connection limit 1-3; EVERY interleaving at channel-operation granularity within preemption bound 2 (3 thorough), a non-default ready select case and every rand.Intn result being choices too; distinct = distinct (per-message outcome, per-listener deliveries) vectors",
			Assume: []string{"the channel operations of poll.go are instrumented by an AST rewriter at check time (it fails loudly on syntax it does not know); sequentially consistent interleavings at channel-operation granularity; plain memory races between two such operations are looked for by the separate free-running -race pass (sampling, supplementary)"},
			QuickS: 150, ThoroughS: 1500,
			PostCheck: racePass("C18"), Extra: raceExtra,
		}
	}
}
