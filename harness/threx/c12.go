package threx

import (
	"errors"
	"fmt"
	"os"
	"sort"
	"strings"
	"time"

	"github.com/prometheus/client_golang/prometheus"
	"github.com/resonatehq/gocoro"
	"github.com/resonatehq/resonate/internal/aio"
	"github.com/resonatehq/resonate/internal/api"
	"github.com/resonatehq/resonate/internal/app/coroutines"
	"github.com/resonatehq/resonate/internal/app/subsystems/aio/echo"
	"github.com/resonatehq/resonate/internal/app/subsystems/aio/store/sqlite"
	sapi "github.com/resonatehq/resonate/internal/app/subsystems/api"
	"github.com/resonatehq/resonate/internal/kernel/bus"
	"github.com/resonatehq/resonate/internal/kernel/system"
	"github.com/resonatehq/resonate/internal/kernel/t_aio"
	"github.com/resonatehq/resonate/internal/kernel/t_api"
	"github.com/resonatehq/resonate/internal/metrics"
	"github.com/resonatehq/resonate/internal/verif/runner"
	"github.com/resonatehq/resonate/internal/verif/vch"
	"github.com/resonatehq/resonate/internal/verif/vx"
	"github.com/resonatehq/resonate/pkg/promise"
)

// C12Scenario: the production API queue, AIO queue, kernel loop, echo subsystem with its
// worker goroutines and the protocol-side Process function, closed by client threads and
// an operator who requests shutdown.
type C12Scenario struct {
	Name     string
	APISize  int
	CQSize   int
	SQSize   int // echo submission queue
	Workers  int
	CoroMax  int
	SubBatch int
	CplBatch int
	Clients  []int // requests per client thread (one after the other)
	// LateShutdown: the operator only starts after every client has its answer
	LateShutdown bool
	// AfterShutdown: one more client that starts after Shutdown() has returned
	AfterShutdown bool
	// Flaky: the echo subsystem is replaced by a harness subsystem whose queue refuses and
	// whose worker fails by choice of the explorer
	Flaky bool
	// Store: the real SQLite store subsystem (worker goroutine, batch collection, flush) on an
	// in-memory database and the real ReadPromise coroutine instead of echo
	Store      bool
	StoreBatch int
	Bound      int
	Delay bool // delay bounding instead of preemption bounding
}

type c12Req struct {
	client, n     int
	data          string
	afterShutdown bool // Process was called after Shutdown() had returned
	returned      bool
	res           *t_api.Response
	err           *sapi.Error
}

type C12Job struct {
	Sc C12Scenario
	m  *metrics.Metrics // one set of counters for all executions of the job (they influence nothing)
}

func (j *C12Job) Name() string { return "C12/" + j.Sc.Name }

// frontSubsystem stands for the HTTP / gRPC servers of the api: Stop waits for the
// requests in flight (the client threads), as http.Server.Shutdown does, or gives up.
type frontSubsystem struct{ wait func() error }

func (f *frontSubsystem) String() string     { return "front" }
func (f *frontSubsystem) Kind() string       { return "front" }
func (f *frontSubsystem) Addr() string       { return "" }
func (f *frontSubsystem) Start(chan<- error) {}
func (f *frontSubsystem) Stop() error        { return f.wait() }

// flaky is an aio subsystem of kind Echo under the explorer's control.
type flaky struct {
	a  aio.AIO
	sq chan *bus.SQE[t_aio.Submission, t_aio.Completion]
}

func (f *flaky) String() string           { return "echo(flaky)" }
func (f *flaky) Kind() t_aio.Kind         { return t_aio.Echo }
func (f *flaky) Start(chan<- error) error { vch.GoNamed("flaky-worker", f.work); return nil }
func (f *flaky) Stop() error              { vch.Close(f.sq); return nil }
func (f *flaky) Flush(int64)              {}
func (f *flaky) Enqueue(sqe *bus.SQE[t_aio.Submission, t_aio.Completion]) bool {
	if vch.Intn(2) == 1 {
		return false // queue full
	}
	return vch.Select(true, vch.SendCase(f.sq, sqe)) == 0
}
func (f *flaky) Process([]*bus.SQE[t_aio.Submission, t_aio.Completion]) []*bus.CQE[t_aio.Submission, t_aio.Completion] {
	return nil
}
func (f *flaky) work() {
	for {
		sqe, ok := vch.Recv2(f.sq)
		if !ok {
			return
		}
		cqe := &bus.CQE[t_aio.Submission, t_aio.Completion]{Id: sqe.Id, Callback: sqe.Callback}
		if vch.Intn(2) == 1 {
			cqe.Error = errors.New("subsystem failure")
		} else {
			cqe.Completion = &t_aio.Completion{Kind: t_aio.Echo, Tags: sqe.Submission.Tags, Echo: &t_aio.EchoCompletion{Data: sqe.Submission.Echo.Data}}
		}
		f.a.EnqueueCQE(cqe)
	}
}

type c12Outcome struct {
	viol    []string
	summary string
}

func (j *C12Job) runOnce(ch vch.Chooser, keepTrace bool) (*c12Outcome, *vch.Scheduler) {
	return j.run(ch, keepTrace, false)
}

// FreeRun: see C18Job.FreeRun.
func (j *C12Job) FreeRun() { j.run(nil, false, true) }

func (j *C12Job) run(ch vch.Chooser, keepTrace bool, free bool) (*c12Outcome, *vch.Scheduler) {
	sc := j.Sc
	out := &c12Outcome{}
	if j.m == nil {
		j.m = metrics.New(prometheus.NewRegistry())
	}
	m := j.m
	a := api.New(sc.APISize, m)
	io := aio.New(sc.CQSize, m)
	if sc.Store {
		st, err := sqlite.New(io, m, &sqlite.Config{Size: sc.SQSize, BatchSize: sc.StoreBatch, Path: ":memory:", TxTimeout: time.Hour})
		if err != nil {
			out.viol = append(out.viol, "harness: "+err.Error())
			return out, nil
		}
		io.AddSubsystem(st)
	} else if sc.Flaky {
		io.AddSubsystem(&flaky{a: io, sq: make(chan *bus.SQE[t_aio.Submission, t_aio.Completion], sc.SQSize)})
	} else {
		e, err := echo.New(io, m, &echo.Config{Size: sc.SQSize, BatchSize: 1, Workers: sc.Workers})
		if err != nil {
			out.viol = append(out.viol, "harness: "+err.Error())
			return out, nil
		}
		io.AddSubsystem(e)
	}
	cfg := &system.Config{CoroutineMaxSize: sc.CoroMax, SubmissionBatchSize: sc.SubBatch, CompletionBatchSize: sc.CplBatch, SignalTimeout: time.Second}
	sys := system.New(a, io, cfg, m)
	// the echo coroutine under a request kind that the protocol-side Process function can
	// answer (an Echo response has no status code of the API's own)
	if sc.Store {
		sys.AddOnRequest(t_api.ReadPromise, coroutines.ReadPromise)
	} else {
		sys.AddOnRequest(t_api.ReadPromise, echoAsRead)
	}
	front := sapi.New(a, "verif")

	var reqs []*c12Req
	for ci, n := range sc.Clients {
		for k := 0; k < n; k++ {
			reqs = append(reqs, &c12Req{client: ci, n: k, data: fmt.Sprintf("c%d.%d", ci, k)})
		}
	}
	var late *c12Req
	if sc.AfterShutdown {
		late = &c12Req{client: len(sc.Clients), data: "late"}
		reqs = append(reqs, late)
	}
	shutdownReturned, loopReturned, stopped := false, false, false
	answeredAfterLoop := []string{}
	call := func(r *c12Req) {
		r.afterShutdown = shutdownReturned
		r.res, r.err = front.Process(r.data, &t_api.Request{Kind: t_api.ReadPromise, ReadPromise: &t_api.ReadPromiseRequest{Id: r.data}})
		r.returned = true
		if loopReturned && stopped {
			answeredAfterLoop = append(answeredAfterLoop, r.data)
		}
	}
	body := func() {
		var clients []*vch.Thread
		a.AddSubsystem(&frontSubsystem{wait: func() error {
			if vch.WaitCond("front.Stop(requests in flight)", func() bool {
				for _, c := range clients {
					if !c.Finished() {
						return false
					}
				}
				return true
			}, 10*time.Second) {
				return nil // http.Server.Shutdown gave up; serve.go would return the error and exit
			}
			return nil
		}})
		_ = a.Start()
		if err := io.Start(); err != nil {
			panic(err)
		}
		loop := vch.GoNamed("loop", func() {
			_ = sys.Loop()
			loopReturned = true
			_ = a.Stop()
			_ = io.Stop()
			stopped = true
		})
		for ci := range sc.Clients {
			ci := ci
			clients = append(clients, vch.GoNamed(fmt.Sprintf("client%d", ci), func() {
				for _, r := range reqs {
					if r.client == ci && r != late {
						call(r)
					}
				}
			}))
		}
		if sc.LateShutdown {
			for _, c := range clients {
				vch.Join(c)
			}
		}
		op := vch.GoNamed("operator", func() {
			done := sys.Shutdown()
			shutdownReturned = true
			if late != nil {
				clients = append(clients, vch.GoNamed("client-late", func() { call(late) }))
			}
			vch.Recv(done)
		})
		vch.Join(op)
		vch.Join(loop)
		for _, c := range clients {
			vch.Join(c)
		}
	}
	if free {
		body()
		return out, nil
	}
	s := vch.Run(ch, vch.Options{MaxSteps: 6000, KeepTrace: keepTrace, DrainOnCut: true, DelayBound: sc.Delay}, body)
	// ---- oracle ----
	for _, pn := range s.Panics {
		out.viol = append(out.viol, "panic: "+pn)
	}
	if s.Deadlock != "" {
		out.viol = append(out.viol, "stuck: "+s.Deadlock)
	}
	if len(s.Leaked) > 0 {
		out.viol = append(out.viol, "harness: threads blocked outside the shim: "+strings.Join(s.Leaked, ","))
	}
	var sum []string
	for _, r := range reqs {
		switch {
		case !r.returned:
			out.viol = append(out.viol, fmt.Sprintf("no response: request %s never got an answer (shutdown requested before it was submitted: %v; loop returned: %v)", r.data, r.afterShutdown, loopReturned))
			sum = append(sum, r.data+":none")
		case r.err == nil && r.res != nil:
			if r.res.ReadPromise == nil || r.res.ReadPromise.Promise == nil || r.res.ReadPromise.Promise.Id != r.data {
				out.viol = append(out.viol, fmt.Sprintf("wrong response: request %s got the answer of another request: %v", r.data, r.res))
			}
			if r.afterShutdown {
				out.viol = append(out.viol, fmt.Sprintf("accepted after shutdown: request %s was submitted after Shutdown() had returned and was executed instead of being refused", r.data))
			}
			sum = append(sum, r.data+":ok")
		case r.err != nil:
			code := r.err.Code
			sum = append(sum, fmt.Sprintf("%s:%d", r.data, code))
			if sc.Store && code == t_api.StatusPromiseNotFound {
				break // the operation's result: the promise does not exist in the empty database
			}
			allowed := map[t_api.StatusCode]bool{t_api.StatusAIOStoreError: true, t_api.StatusAPISubmissionQueueFull: true, t_api.StatusSystemShuttingDown: true, t_api.StatusSchedulerQueueFull: true, t_api.StatusAIOSubmissionQueueFull: true, t_api.StatusAIOEchoError: true}
			if !allowed[code] {
				out.viol = append(out.viol, fmt.Sprintf("unexpected error: request %s was answered with %d (%s)", r.data, code, r.err.Error()))
			}
			if r.afterShutdown && code != t_api.StatusSystemShuttingDown {
				out.viol = append(out.viol, fmt.Sprintf("late request not refused with shutting-down: request %s got %d", r.data, code))
			}
			if sc.LateShutdown && !r.afterShutdown && code == t_api.StatusSystemShuttingDown {
				out.viol = append(out.viol, fmt.Sprintf("refused before shutdown: request %s got shutting-down although shutdown was requested only after it was answered", r.data))
			}
		default:
			out.viol = append(out.viol, fmt.Sprintf("empty response: request %s returned neither result nor error", r.data))
		}
	}
	if len(answeredAfterLoop) > 0 && s.TimedOut == 0 {
		out.viol = append(out.viol, "answered only after the server had stopped: "+strings.Join(answeredAfterLoop, ","))
	}
	out.summary = strings.Join(sum, " ")
	return out, s
}

func c12Sig(v string) string {
	if i := strings.Index(v, ":"); i > 0 {
		return strings.ReplaceAll(v[:i], " ", "-")
	}
	return "other"
}

func (j *C12Job) Run(deadline time.Time) *runner.JobResult {
	res := &runner.JobResult{Name: j.Name(), Counters: map[string]int64{}}
	outcomes := map[string]bool{}
	seen := map[string]bool{}
	ex := &vx.Explorer{Bound: j.Sc.Bound, Prune: os.Getenv("THREX_NOPRUNE") == "", Stop: func() bool { return !deadline.IsZero() && time.Now().After(deadline) }}
	ex.Explore(func(ch *vx.Chooser) bool {
		runner.Trace(fmt.Sprintf("JOB %s PREFIX %v", j.Name(), ch.Prefix()))
		o, _ := j.runOnce(ch, false)
		outcomes[o.summary] = true
		for _, v := range o.viol {
			sig := "C12:" + c12Sig(v)
			if seen[sig] {
				continue
			}
			seen[sig] = true
			rv := runner.Violation{Sig: sig, Msg: v, Job: j.Name()}
			choices := ch.Choices()
			var tr []string
			for k := 0; k < 3; k++ {
				o2, s2 := j.runOnce(vx.NewChooser(choices), true)
				found := false
				for _, v2 := range o2.viol {
					if "C12:"+c12Sig(v2) == sig {
						found = true
					}
				}
				if !found {
					rv.Flaky = true
				}
				if s2 != nil {
					tr = s2.Trace
				}
			}
			rv.Replay = map[string]any{"job": j.Name(), "choices": choices, "schedule": tr}
			res.Violations = append(res.Violations, rv)
		}
		if len(res.Samples) < 1 {
			res.Samples = append(res.Samples, map[string]any{"schedule": ch.Labels()})
		}
		return len(seen) < 4
	})
	res.Executions, res.Transitions, res.MaxDepth, res.Capped = ex.Stats.Executions, ex.Stats.Transitions, ex.Stats.MaxDepth, ex.Stats.Capped
	res.Cut = ex.Stats.Cut
	if ex.Stats.MemStop {
		res.Notes = append(res.Notes, "stopped at the memory limit of the worker process: gocoro.Add starts a goroutine for a coroutine that the full scheduler then refuses and never resumes it, so every execution with a refused coroutine leaks one goroutine")
	}
	res.States = int64(len(outcomes))
	for o := range outcomes {
		res.Outcomes = append(res.Outcomes, o)
	}
	sort.Strings(res.Outcomes)
	if len(res.Outcomes) > 200 {
		res.Outcomes = res.Outcomes[:200]
	}
	return res
}

func C12Jobs(tier string) []runner.Job {
	b := 2
	if tier == "thorough" {
		b = 3
	}
	scs := []C12Scenario{
		{Name: "one-client/all-queues-1", APISize: 1, CQSize: 1, SQSize: 1, Workers: 1, CoroMax: 1, SubBatch: 1, CplBatch: 1, Clients: []int{1}, Bound: b},
		{Name: "two-clients/all-queues-1", APISize: 1, CQSize: 1, SQSize: 1, Workers: 1, CoroMax: 1, SubBatch: 1, CplBatch: 1, Clients: []int{1, 1}, Bound: b},
		{Name: "two-clients/all-queues-1/late-shutdown", APISize: 1, CQSize: 1, SQSize: 1, Workers: 1, CoroMax: 1, SubBatch: 1, CplBatch: 1, Clients: []int{1, 1}, LateShutdown: true, Bound: b},
		{Name: "two-clients/roomy", APISize: 2, CQSize: 2, SQSize: 2, Workers: 1, CoroMax: 2, SubBatch: 2, CplBatch: 2, Clients: []int{1, 1}, Bound: b},
		{Name: "one-client-two-requests/batch-2", APISize: 2, CQSize: 1, SQSize: 1, Workers: 2, CoroMax: 2, SubBatch: 2, CplBatch: 1, Clients: []int{2}, LateShutdown: true, Bound: b},
		{Name: "request-after-shutdown", APISize: 1, CQSize: 1, SQSize: 1, Workers: 1, CoroMax: 1, SubBatch: 1, CplBatch: 1, Clients: []int{1}, AfterShutdown: true, Bound: b},
		{Name: "three-clients/pool-1/backpressure", APISize: 2, CQSize: 1, SQSize: 1, Workers: 1, CoroMax: 1, SubBatch: 2, CplBatch: 1, Clients: []int{1, 1, 1}, LateShutdown: true, Bound: b},
		{Name: "three-clients/pool-1/batch-3", APISize: 3, CQSize: 1, SQSize: 1, Workers: 1, CoroMax: 1, SubBatch: 5, CplBatch: 1, Clients: []int{1, 1, 1}, LateShutdown: true, Bound: b},
		{Name: "sqlite-store/batch-2", APISize: 2, CQSize: 1, SQSize: 1, Workers: 1, CoroMax: 2, SubBatch: 2, CplBatch: 1, Clients: []int{1, 1}, Store: true, StoreBatch: 2, Bound: b},
		{Name: "flaky-subsystem", APISize: 2, CQSize: 1, SQSize: 1, Workers: 1, CoroMax: 2, SubBatch: 2, CplBatch: 1, Clients: []int{1, 1}, Flaky: true, LateShutdown: true, Bound: b},
	}
	var jobs []runner.Job
	small := map[string]bool{"one-client/all-queues-1": true, "one-client-two-requests/batch-2": true, "request-after-shutdown": true}
	for _, sc := range scs {
		if tier == "thorough" || small[sc.Name] {
			jobs = append(jobs, &C12Job{Sc: sc})
		}
		d := sc
		d.Name += "/delay-bounded"
		d.Delay = true
		d.Bound = 5
		if tier == "thorough" {
			d.Bound = 7
		}
		if sc.Store {
			d.Bound -= 2 // every execution opens a database and the worker's batch collection adds blocking points
		}
		jobs = append(jobs, &C12Job{Sc: d})
	}
	return jobs
}

func init() {
	Specs["C12"] = func() *runner.Spec {
		return &runner.Spec{
			Property: "C12", Engine: "threx", Level: "model_checking",
			Jobs: C12Jobs,
			Rule:   "the real api queue, aio queue, System.Loop / Tick / Shutdown, echo subsystem with its worker goroutines (or a subsystem that refuses and fails by choice) and the protocol-side Process function; 1-3 client threads, an operator requesting shutdown at any moment (or after all answers), a request submitted after Shutdown returned, the loop thread stopping api and aio after Loop like serve.go; queue / pool / batch sizes 1-2; EVERY interleaving at channel-operation granularity within preemption bound 2 (3 thorough), signal timer firings included; distinct = distinct vectors of per-request outcomes",
			Assume: []string{"the channel operations of api.go, aio.go, system.go, subsystems/api/api.go, echo.go are instrumented by an AST rewriter at check time; sequentially consistent interleavings at channel-operation granularity; gocoro's internal coroutine hand-off is native (deterministic rendezvous)"},
			QuickS: 150, ThoroughS: 1500,
			PostCheck: racePass("C12"), Extra: raceExtra,
		}
	}
}

// echoAsRead: the echo coroutine under a request kind that the protocol-side Process
// function can answer (an Echo response has no status code of the API's own).
func echoAsRead(c gocoro.Coroutine[*t_aio.Submission, *t_aio.Completion, any], r *t_api.Request) (*t_api.Response, error) {
	res, err := coroutines.Echo(c, &t_api.Request{Kind: t_api.Echo, Tags: r.Tags, Echo: &t_api.EchoRequest{Data: r.ReadPromise.Id}})
	if err != nil {
		return nil, err
	}
	return &t_api.Response{Kind: t_api.ReadPromise, Tags: r.Tags, ReadPromise: &t_api.ReadPromiseResponse{Status: t_api.StatusOK, Promise: &promise.Promise{Id: res.Echo.Data}}}, nil
}
