// Package vch is the channel / goroutine / timer shim of engine C. The rewriter
// turns every channel operation, select, go statement, time.After, time.Now and
// rand.Intn of the instrumented files into calls of this package. Data stays in the
// real Go channels; the shim only decides WHEN an operation may run: in controlled
// mode exactly one logical thread runs at a time and every shim operation is a
// scheduling point at which the explorer picks the next thread. Without an active
// scheduler every function is a plain pass-through (used by the free-running -race pass).
package vch

import (
	"context"
	"fmt"
	"math/rand"
	"net/http"
	"reflect"
	"runtime"
	"sort"
	"strings"
	"sync"
	"time"
)

// ---------------------------------------------------------------------------
// scheduler
// ---------------------------------------------------------------------------

type opKind int

const (
	opStart opKind = iota
	opSend
	opRecv
	opSelect
	opJoin
	opYield
)

type selCase struct {
	send  bool
	key   uintptr
	ready func() bool
	label string
}

type op struct {
	kind   opKind
	label  string
	ready  func() bool // for send/recv/join
	cases  []selCase   // for select
	hasDef bool
	chosen int // select: case picked by the scheduler (-1 = default)
	site   uintptr // call site of a select with a default branch (spin detection)
	lockKey uintptr
	recvKey uintptr
}

type Thread struct {
	Id       int
	Name     string
	sem      chan struct{}
	pending  *op
	finished bool
	exited   chan struct{}
	spins    int // consecutive default-branch takes of the SAME select with nobody else running in between
	spinSite uintptr
	waiting  int // consecutive scheduling decisions at which it could run but was not picked
	free     bool // a real goroutine of the free-running mode
	foreign  bool // parked for good on a goroutine that is not its own (see abortHere)
	nameH    uint64
	hist     uint64 // rolling hash of the results of this thread's operations: determines its local state
	nops     uint64
	spawned  int
}

type timer struct {
	key   uintptr
	id    int
	owner *Thread
	ch    chan time.Time
	at    time.Duration
	fired bool
	stale bool
}

// Chooser is what the scheduler asks at every scheduling point.
type Chooser interface {
	Choose(labels []string, costs []int) int
}

type Scheduler struct {
	mu       sync.Mutex
	ch       Chooser
	threads  []*Thread
	running  *Thread
	cmu      sync.Mutex // guards closed (ready functions run with mu held)
	closed   map[uintptr]bool
	keep     map[uintptr]any
	timers   []*timer
	clock    time.Duration
	Deadlock string   // set when no thread could run while some were unfinished
	Panics   []string // panics of controlled threads (recovered so that the exploration survives)
	Steps    int
	MaxSteps int
	Aborted  bool
	done     chan struct{}
	intn     []int // menu for rand.Intn results: nil = always 0
	Trace    []string
	KeepTrace bool
	Leaked   []string // threads that did not unwind at tear-down (blocked outside the shim)
	Foreign  []string // threads parked for good on a goroutine of the code under test (only after an abort)
	// ShutdownWait stands for http.Server.Shutdown: the harness knows the handler threads
	ShutdownWait func(ctx context.Context) error
	TimedOut     int // timers fired
	KeepEvents   bool
	drainOnCut   bool
	draining     bool
	delayBound   bool
	lastRan      int
	Events       []Event
	Cut          bool // the execution was cut at a state that was already expanded
	locks        map[uintptr]*lockState
	shadow       map[uintptr][]uint64 // per channel: the tokens (sender thread, operation index) of the buffered values
}

// Event is one performed (or, for Publish, announced) operation; the harness oracles
// read the log to rebuild what each thread saw, in the global order it happened.
type Event struct {
	Thread string
	Kind   int // EvSend .. EvPublish
	Case   int // select: index of the case
	Key    uintptr
	Keys   []uintptr // EvPublish: the channels of the select
	Ok     bool      // receive: a value (true) or closed (false)
	N      int       // EvIntn: result
}

const (
	EvSend = iota + 1
	EvRecv
	EvClose
	EvDefault
	EvIntn
	EvPublish
	EvSpawn
)

func (s *Scheduler) ev(e Event) {
	if s.KeepEvents {
		e.Thread = s.running.Name
		s.Events = append(s.Events, e)
	}
}

func (s *Scheduler) choose(labels []string, costs []int) int {
	if s.draining {
		return 0
	}
	return s.ch.Choose(labels, costs)
}

// onOwnGoroutine: is the calling goroutine the one threadMain runs on? (only asked when
// an execution is torn down)
func onOwnGoroutine() bool {
	var pcs [64]uintptr
	n := runtime.Callers(2, pcs[:])
	fr := runtime.CallersFrames(pcs[:n])
	for {
		f, more := fr.Next()
		if strings.HasSuffix(f.Function, "vch.(*Scheduler).threadMain") {
			return true
		}
		if !more {
			return false
		}
	}
}

// abortHere unwinds the calling logical thread. Code under test may execute shim
// operations on a goroutine of its own on behalf of a logical thread (a coroutine
// resumed by the kernel loop calls the reply callback): such a goroutine cannot be
// unwound by a panic (nobody recovers it), it parks for good instead.
func (s *Scheduler) abortHere(t *Thread) {
	if t == nil || onOwnGoroutine() {
		panic(abortExec{})
	}
	s.mu.Lock()
	t.foreign = true
	s.mu.Unlock()
	select {}
}

// FairK: see schedule.
const FairK = 16

// Seener is implemented by choosers that prune at visited states.
type Seener interface {
	Seen(key func() string) bool
}

func mix(h, v uint64) uint64 {
	h ^= v + 0x9e3779b97f4a7c15 + (h << 6) + (h >> 2)
	h *= 0xff51afd7ed558ccd
	h ^= h >> 33
	return h
}

func strH(x string) uint64 {
	h := uint64(1469598103934665603)
	for i := 0; i < len(x); i++ {
		h ^= uint64(x[i])
		h *= 1099511628211
	}
	return h
}

// note records the result of an operation of the running thread in its history.
func (s *Scheduler) note(t *Thread, kind, a, b uint64) {
	t.nops++
	t.hist = mix(mix(mix(mix(t.hist, t.nops), kind), a), b)
}

func (s *Scheduler) pushTok(k uintptr, t *Thread) uint64 {
	tok := mix(t.nameH, t.nops+1)
	s.shadow[k] = append(s.shadow[k], tok)
	return tok
}

func (s *Scheduler) popTok(k uintptr) uint64 {
	q := s.shadow[k]
	if len(q) == 0 {
		return 0
	}
	tok := q[0]
	if len(q) == 1 {
		delete(s.shadow, k)
	} else {
		s.shadow[k] = q[1:]
	}
	return tok
}

// stateKey: the local state of a thread is a function of the results of its own
// operations (the code is deterministic apart from the shim), a buffered value is
// identified by (sending thread, index of the sending operation), which also
// determines the channel it sits in. Threads are named canonically (harness name, or
// parent name / spawn index). Two interleavings that agree on all of this are in the
// same state; what differs between them is only the order of independent operations.
func (s *Scheduler) stateKey(self *Thread) string {
	ths := append([]*Thread{}, s.threads...)
	sort.Slice(ths, func(i, j int) bool { return ths[i].Name < ths[j].Name })
	var b []byte
	put := func(v uint64) {
		b = append(b, byte(v), byte(v>>8), byte(v>>16), byte(v>>24), byte(v>>32), byte(v>>40), byte(v>>48), byte(v>>56))
	}
	for _, t := range ths {
		put(t.nameH)
		put(t.hist)
		f := uint64(0)
		if t.finished {
			f = 1
		}
		sp := t.spins
		if sp > 2 {
			sp = 2
		}
		put(f | uint64(sp)<<1)
		if t.pending != nil {
			put(strH(t.pending.label))
		}
	}
	if self != nil {
		put(self.nameH)
	} else {
		put(0)
	}
	var qs [][]uint64
	for _, q := range s.shadow {
		if len(q) > 0 {
			qs = append(qs, q)
		}
	}
	sort.Slice(qs, func(i, j int) bool { return qs[i][0] < qs[j][0] })
	for _, q := range qs {
		put(uint64(len(q)))
		for _, v := range q {
			put(v)
		}
	}
	put(uint64(s.clock))
	for _, x := range s.timers {
		f := uint64(0)
		if x.fired {
			f |= 1
		}
		if x.stale {
			f |= 2
		}
		put(x.owner.nameH ^ f)
	}
	return string(b)
}


var (
	gmu sync.Mutex
	S   *Scheduler // active scheduler (nil = pass-through)
)

func active() *Scheduler {
	gmu.Lock()
	defer gmu.Unlock()
	return S
}

// Run executes body as thread 0 under a fresh scheduler driven by ch and returns
// when every thread has finished, a deadlock was detected or the step bound was hit.
// Options of one controlled execution.
type Options struct {
	MaxSteps   int
	KeepTrace  bool
	KeepEvents bool
	// DrainOnCut: at a state that was already expanded the execution is not abandoned but
	// run to its end with default choices and without recording choice points (for code
	// that parks native goroutines which an abandoned execution would leak).
	DrainOnCut bool
	// DelayBound: the default schedule is round robin without preemption (the running thread
	// goes on, a blocked one hands over to the next runnable thread in creation order after
	// it); choosing the i-th candidate instead of the first costs i delays, at blocking points
	// too (Emmi, Qadeer, Rakamaric: delay-bounded scheduling). Off: preemption bounding, where
	// only switching away from a runnable thread costs and hand-overs at blocking points are free.
	DelayBound bool
}

func Run(ch Chooser, opt Options, body func()) *Scheduler {
	s := &Scheduler{KeepTrace: opt.KeepTrace, KeepEvents: opt.KeepEvents, drainOnCut: opt.DrainOnCut, delayBound: opt.DelayBound, shadow: map[uintptr][]uint64{}, locks: map[uintptr]*lockState{}, ch: ch, closed: map[uintptr]bool{}, keep: map[uintptr]any{}, MaxSteps: opt.MaxSteps, done: make(chan struct{})}
	gmu.Lock()
	S = s
	gmu.Unlock()
	t := s.newThread("main")
	s.running = t
	go s.threadMain(t, body)
	t.sem <- struct{}{} // main starts immediately
	<-s.done
	// tear down: every thread that is still parked (blocked for good, or never started)
	// is woken one at a time with Aborted set; its next shim call panics with abortExec,
	// its deferred functions run under the same rule, and Run waits until it is gone, so
	// that no goroutine of this execution can touch the scheduler of the next one.
	s.mu.Lock()
	s.Aborted = true
	ths := append([]*Thread{}, s.threads...)
	s.mu.Unlock()
	for i := 0; i < len(ths); i++ {
		t := ths[i]
		select {
		case t.sem <- struct{}{}:
		default:
		}
		tm := time.NewTimer(2 * time.Second)
	wait:
		for {
			select {
			case <-t.exited:
				break wait
			case <-tm.C:
				s.Leaked = append(s.Leaked, t.Name)
				break wait
			case <-time.After(2 * time.Millisecond):
				s.mu.Lock()
				f := t.foreign
				s.mu.Unlock()
				if f {
					s.Foreign = append(s.Foreign, t.Name)
					break wait
				}
			}
		}
		tm.Stop()
		s.mu.Lock()
		ths = append(ths[:0:0], s.threads...) // threads spawned by deferred code
		s.mu.Unlock()
	}
	gmu.Lock()
	S = nil
	gmu.Unlock()
	return s
}

func (s *Scheduler) newThread(name string) *Thread {
	t := &Thread{Id: len(s.threads), Name: name, sem: make(chan struct{}, 1), exited: make(chan struct{}), pending: &op{kind: opStart, label: "start"}, nameH: strH(name), hist: strH(name)}
	s.threads = append(s.threads, t)
	return t
}

func (s *Scheduler) threadMain(t *Thread, body func()) {
	<-t.sem
	defer close(t.exited)
	s.mu.Lock()
	ab := s.Aborted
	s.mu.Unlock()
	if ab {
		s.mu.Lock()
		t.finished = true
		t.pending = nil
		s.mu.Unlock()
		return
	}
	defer func() {
		if r := recover(); r != nil {
			if _, ok := r.(abortExec); !ok {
				s.mu.Lock()
				s.Panics = append(s.Panics, fmt.Sprintf("%s: %v", t.Name, r))
				s.mu.Unlock()
			}
		}
		s.mu.Lock()
		t.finished = true
		t.pending = nil
		s.mu.Unlock()
		s.schedule(nil)
	}()
	body()
}

type abortExec struct{}

func (o *op) listens(k uintptr) bool {
	if o.recvKey == k {
		return true
	}
	for _, c := range o.cases {
		if !c.send && c.key == k {
			return true
		}
	}
	return false
}

func (s *Scheduler) enabled(t *Thread) bool {
	if t.finished || t.pending == nil {
		return false
	}
	o := t.pending
	switch o.kind {
	case opStart, opYield:
		return true
	case opSend, opRecv, opJoin, opLockW, opLockR:
		return o.ready()
	case opSelect:
		if o.hasDef {
			return true
		}
		for _, c := range o.cases {
			if c.ready() {
				return true
			}
		}
	}
	return false
}

// schedule: called by the running thread after it published its pending op (self !=
// nil) or when it finished (self == nil). Picks the next thread and hands over.
func (s *Scheduler) schedule(self *Thread) {
	for {
		s.mu.Lock()
		if s.Aborted {
			s.mu.Unlock()
			if self != nil {
				s.abortHere(self)
			}
			return
		}
		s.Steps++
		if s.MaxSteps > 0 && s.Steps > s.MaxSteps {
			s.Aborted = true
			s.Deadlock = fmt.Sprintf("step bound %d reached (livelock?)", s.MaxSteps)
			s.mu.Unlock()
			s.finish()
			if self != nil {
				s.abortHere(self)
			}
			return
		}
		var en []*Thread
		// a thread that keeps taking the default branch of a select while nobody else ran is
		// spinning (poll loop): the state does not change, so it yields: the others go first
		// at no cost and it is only picked again when it is alone (fair scheduling of spin loops)
		spinning := self != nil && self.spins >= 2 && s.enabled(self)
		if self != nil && !spinning && s.enabled(self) {
			en = append(en, self) // canonical order: the running thread first
		}
		unfinished := 0
		for _, t := range s.threads {
			if !t.finished {
				unfinished++
			}
		}
		// the others in round-robin order after the thread that ran last
		from := s.lastRan
		if self != nil {
			from = self.Id
		}
		for k := 1; k <= len(s.threads); k++ {
			t := s.threads[(from+k)%len(s.threads)]
			if t != self && s.enabled(t) {
				en = append(en, t)
			}
		}
		if spinning && len(en) == 0 {
			hasTimer := false
			for _, x := range s.timers {
				if !x.fired && !x.stale {
					hasTimer = true
				}
			}
			if !hasTimer {
				s.Deadlock = "livelock: " + self.Name + " spins in " + self.pending.label + " and no other thread can run"
				s.Aborted = true
				s.mu.Unlock()
				s.finish()
				s.abortHere(self)
			}
			// only time can change anything: the timer fires (below, at no cost)
		}
		var tm []*timer
		for _, x := range s.timers {
			// a timer only needs to fire while its owner waits on it: until the owner looks at
			// the channel nobody can tell whether it fired, so firing earlier is the same
			// behaviour as firing then (partial-order reduction)
			if !x.fired && !x.stale && x.owner.pending != nil && !x.owner.finished && x.owner.pending.listens(x.key) {
				tm = append(tm, x)
			}
		}
		// fairness: a thread that has been runnable for FairK decisions in a row without
		// being picked goes next (busy loops that poll a closed channel, like the kernel loop
		// after shutdown, would otherwise be unrolled without end by the default schedule)
		var starved *Thread
		for _, t := range en {
			if t != self && t.waiting >= FairK && (starved == nil || t.waiting > starved.waiting) {
				starved = t
			}
		}
		if starved != nil {
			en, tm = []*Thread{starved}, nil
		}
		if unfinished == 0 {
			s.mu.Unlock()
			s.finish()
			return
		}
		if len(en) == 0 && len(tm) == 0 {
			if unfinished > 0 {
				var bl []string
				for _, t := range s.threads {
					if !t.finished && t.pending != nil {
						bl = append(bl, t.Name+" blocked in "+t.pending.label)
					}
				}
				s.Deadlock = "no thread can run: " + strings.Join(bl, "; ")
				s.Aborted = true
			}
			s.mu.Unlock()
			s.finish()
			if self != nil && s.Deadlock != "" {
				s.abortHere(self)
			}
			return
		}
		if sn, ok := s.ch.(Seener); ok && !s.draining && sn.Seen(func() string { return s.stateKey(self) }) && s.cutHere() {
			s.Aborted = true
			s.mu.Unlock()
			s.finish()
			if self != nil {
				s.abortHere(self)
			}
			return
		}
		waitingBefore := make(map[*Thread]int, len(en))
		for _, t := range en {
			waitingBefore[t] = t.waiting
		}
		labels := make([]string, 0, len(en)+len(tm))
		costs := make([]int, 0, len(en)+len(tm))
		preempt := self != nil && len(en) > 0 && en[0] == self && !spinning
		for i, t := range en {
			labels = append(labels, t.Name+":"+t.pending.label)
			c := 0
			if preempt && i > 0 {
				c = 1 // switching away from a thread that could go on is a preemption
			}
			if s.delayBound {
				c = i // delay bounding: every thread skipped in the round-robin order costs one delay
			}
			costs = append(costs, c)
		}
		for _, x := range tm {
			labels = append(labels, fmt.Sprintf("timer of %s fires", x.owner.Name))
			c := 1
			if len(en) == 0 {
				c = 0 // time passes when nothing else can happen
			}
			costs = append(costs, c)
		}
		s.mu.Unlock()
		k := s.choose(labels, costs)
		if s.KeepTrace {
			if len(labels) > 1 {
				s.Trace = append(s.Trace, fmt.Sprintf("%s   [%d of %s]", labels[k], k, strings.Join(labels, " | ")))
			} else {
				s.Trace = append(s.Trace, labels[k])
			}
		}
		if k >= len(en) {
			x := tm[k-len(en)]
			s.mu.Lock()
			x.fired = true
			s.TimedOut++
			if x.at > s.clock {
				s.clock = x.at
			}
			s.mu.Unlock()
			x.ch <- time.Unix(0, int64(x.at))
			s.shadow[key(x.ch)] = append(s.shadow[key(x.ch)], mix(x.owner.nameH, uint64(x.id)+1<<40))
			continue // the world changed, schedule again
		}
		next := en[k]
		// a select with several ready cases: which one fires is a choice as well
		if o := next.pending; o.kind == opSelect {
			var rdy []int
			for i, c := range o.cases {
				if c.ready() {
					rdy = append(rdy, i)
				}
			}
			switch {
			case len(rdy) == 0:
				o.chosen = -1
			case len(rdy) == 1:
				o.chosen = rdy[0]
			default:
				ls := make([]string, len(rdy))
				cs := make([]int, len(rdy))
				for i, ci := range rdy {
					ls[i] = next.Name + ":select-case " + o.cases[ci].label
					if i > 0 {
						cs[i] = 1
					}
				}
				o.chosen = rdy[s.choose(ls, cs)]
			}
		}
		s.mu.Lock()
		s.running = next
		s.lastRan = next.Id
		for _, t := range s.threads {
			t.waiting = 0
		}
		for _, t := range en {
			if t != next {
				t.waiting = waitingBefore[t] + 1
			}
		}
		if next.pending.kind == opSelect && next.pending.chosen == -1 && next.pending.site != 0 {
			if next.spinSite == next.pending.site {
				next.spins++
			} else {
				next.spins, next.spinSite = 1, next.pending.site
			}
		} else {
			next.spins, next.spinSite = 0, 0
		}
		if next != self {
			for _, t := range s.threads {
				if t != next {
					t.spins = 0
				}
			}
		}
		s.mu.Unlock()
		if next == self {
			return
		}
		next.sem <- struct{}{}
		if self != nil {
			<-self.sem
			s.mu.Lock()
			ab := s.Aborted
			s.mu.Unlock()
			if ab {
				s.abortHere(self)
			}
		}
		return
	}
}

// cutHere: an equal state was expanded before. Either the execution is abandoned (true)
// or it goes on in draining mode (false).
func (s *Scheduler) cutHere() bool {
	s.Cut = true
	if s.drainOnCut {
		s.draining = true
		return false
	}
	return true
}

func (s *Scheduler) finish() {
	s.mu.Lock()
	defer s.mu.Unlock()
	select {
	case <-s.done:
	default:
		close(s.done)
	}
}

// point publishes the pending operation of the running thread and yields.
func (s *Scheduler) point(o *op) *op {
	s.mu.Lock()
	if s.Aborted {
		t := s.running
		s.mu.Unlock()
		s.abortHere(t)
	}
	t := s.running
	t.pending = o
	s.mu.Unlock()
	s.schedule(t)
	return o
}

func key(ch any) uintptr {
	v := reflect.ValueOf(ch)
	if v.Kind() != reflect.Chan || v.IsNil() {
		return 0
	}
	k := v.Pointer()
	// the channel is identified by its address: keep it alive for the whole execution,
	// otherwise the address of a collected channel is handed to a new one, which would
	// inherit its closed flag and its tokens
	if s := active(); s != nil {
		s.cmu.Lock()
		if _, ok := s.keep[k]; !ok {
			s.keep[k] = ch
		}
		s.cmu.Unlock()
	}
	return k
}

func (s *Scheduler) isClosed(k uintptr) bool {
	s.cmu.Lock()
	defer s.cmu.Unlock()
	return s.closed[k]
}

// ---------------------------------------------------------------------------
// the operations the rewriter emits
// ---------------------------------------------------------------------------

func Send[T any](ch chan<- T, v T) {
	s := active()
	if s == nil {
		ch <- v
		return
	}
	k := key(ch)
	if cap(ch) == 0 && !s.isClosed(k) {
		panic("vch: send on an unbuffered channel is not supported by the scheduler (rendezvous)")
	}
	s.point(&op{kind: opSend, label: fmt.Sprintf("send %T", v), ready: func() bool { return len(ch) < cap(ch) || s.isClosed(k) }})
	if !s.isClosed(k) {
		t := s.running
		tok := s.pushTok(k, t)
		s.note(t, 1, tok, 0)
	}
	s.ev(Event{Kind: EvSend, Key: k, Case: -1})
	ch <- v // never blocks: one thread runs at a time and the op was enabled (panics if closed, like the real thing)
}

func Recv[T any](ch <-chan T) T {
	v, _ := Recv2(ch)
	return v
}

func Recv2[T any](ch <-chan T) (T, bool) {
	s := active()
	if s == nil {
		v, ok := <-ch
		return v, ok
	}
	k := key(ch)
	var z T
	s.point(&op{kind: opRecv, recvKey: k, label: fmt.Sprintf("recv %T", z), ready: func() bool { return ch != nil && (len(ch) > 0 || s.isClosed(k)) }})
	s.note(s.running, 2, s.popTok(k), 0)
	v, ok := <-ch
	s.ev(Event{Kind: EvRecv, Key: k, Case: -1, Ok: ok})
	return v, ok
}

// Close closes a channel and remembers it (a closed channel is always ready). It is
// not a scheduling point of its own: the closing thread goes on until its next
// operation, the threads it woke become enabled at the next scheduling point.
func Close[T any](ch chan T) {
	s := active()
	if s != nil {
		kk := key(ch)
		s.cmu.Lock()
		s.closed[kk] = true
		s.cmu.Unlock()
		s.mu.Lock()
		ab := s.Aborted
		s.mu.Unlock()
		if ab {
			close(ch)
			return
		}
		// which channel: identified by what is known about it canonically (its buffered tokens)
		var h uint64
		for _, tok := range s.shadow[key(ch)] {
			h = mix(h, tok)
		}
		s.note(s.running, 3, h, uint64(len(s.shadow[key(ch)])))
		s.ev(Event{Kind: EvClose, Key: key(ch), Case: -1})
	}
	close(ch)
}

// CloseSend is Close for send-only channel values.
func CloseSend[T any](ch chan<- T) {
	s := active()
	if s != nil {
		kk := key(ch)
		s.cmu.Lock()
		s.closed[kk] = true
		s.cmu.Unlock()
		s.mu.Lock()
		ab := s.Aborted
		s.mu.Unlock()
		if ab {
			close(ch)
			return
		}
		// which channel: identified by what is known about it canonically (its buffered tokens)
		var h uint64
		for _, tok := range s.shadow[key(ch)] {
			h = mix(h, tok)
		}
		s.note(s.running, 3, h, uint64(len(s.shadow[key(ch)])))
		s.ev(Event{Kind: EvClose, Key: key(ch), Case: -1})
	}
	close(ch)
}

type Case interface {
	sel(s *Scheduler) selCase
	perform()
}

type RecvC[T any] struct {
	ch <-chan T
	V  T
	Ok bool
}

func RecvCase[T any](ch <-chan T) *RecvC[T] { return &RecvC[T]{ch: ch} }

func (c *RecvC[T]) sel(s *Scheduler) selCase {
	k := key(c.ch)
	var z T
	return selCase{key: k, label: fmt.Sprintf("recv %T", z), ready: func() bool { return c.ch != nil && (len(c.ch) > 0 || s.isClosed(k)) }}
}
func (c *RecvC[T]) perform() { c.V, c.Ok = <-c.ch }
func (c *RecvC[T]) gotOk() bool { return c.Ok }

type SendC[T any] struct {
	ch chan<- T
	v  T
}

func SendCase[T any](ch chan<- T, v T) *SendC[T] { return &SendC[T]{ch: ch, v: v} }

func (c *SendC[T]) sel(s *Scheduler) selCase {
	k := key(c.ch)
	return selCase{send: true, key: k, label: fmt.Sprintf("send %T", c.v), ready: func() bool { return c.ch != nil && (len(c.ch) < cap(c.ch) || s.isClosed(k)) }}
}
func (c *SendC[T]) perform() { c.ch <- c.v }

// Select performs one ready case and returns its index, or -1 for the default case.
func Select(hasDefault bool, cases ...Case) int {
	s := active()
	if s == nil {
		return nativeSelect(hasDefault, cases)
	}
	o := &op{kind: opSelect, hasDef: hasDefault, chosen: -1}
	if hasDefault {
		var pcs [1]uintptr
		if runtime.Callers(2, pcs[:]) == 1 {
			o.site = pcs[0]
		}
	}
	var ls []string
	for _, c := range cases {
		sc := c.sel(s)
		o.cases = append(o.cases, sc)
		ls = append(ls, sc.label)
	}
	o.label = "select{" + strings.Join(ls, ",") + "}"
	if s.KeepEvents {
		ks := make([]uintptr, len(o.cases))
		for i, c := range o.cases {
			ks[i] = c.key
		}
		s.ev(Event{Kind: EvPublish, Keys: ks, Case: -1})
	}
	s.point(o)
	t := s.running
	if o.chosen >= 0 {
		c := o.cases[o.chosen]
		switch {
		case c.send && !s.isClosed(c.key):
			s.note(t, 4, uint64(o.chosen), s.pushTok(c.key, t))
		case c.send:
			s.note(t, 4, uint64(o.chosen), 0)
		default:
			s.note(t, 5, uint64(o.chosen), s.popTok(c.key))
		}
		cases[o.chosen].perform()
		if c.send {
			s.ev(Event{Kind: EvSend, Key: c.key, Case: o.chosen})
		} else {
			s.ev(Event{Kind: EvRecv, Key: c.key, Case: o.chosen, Ok: cases[o.chosen].(interface{ gotOk() bool }).gotOk()})
		}
	} else {
		s.note(t, 6, 0, 0)
		s.ev(Event{Kind: EvDefault, Case: -1})
	}
	return o.chosen
}

func nativeSelect(hasDefault bool, cases []Case) int {
	var rc []reflect.SelectCase
	for _, c := range cases {
		rc = append(rc, c.(interface{ native() reflect.SelectCase }).native())
	}
	if hasDefault {
		rc = append(rc, reflect.SelectCase{Dir: reflect.SelectDefault})
	}
	i, v, ok := reflect.Select(rc)
	if hasDefault && i == len(cases) {
		return -1
	}
	cases[i].(interface{ got(reflect.Value, bool) }).got(v, ok)
	return i
}

func (c *RecvC[T]) native() reflect.SelectCase {
	return reflect.SelectCase{Dir: reflect.SelectRecv, Chan: reflect.ValueOf(c.ch)}
}
func (c *RecvC[T]) got(v reflect.Value, ok bool) {
	c.Ok = ok
	if ok || v.IsValid() {
		if x, is := v.Interface().(T); is {
			c.V = x
		}
	}
}
func (c *SendC[T]) native() reflect.SelectCase {
	return reflect.SelectCase{Dir: reflect.SelectSend, Chan: reflect.ValueOf(c.ch), Send: reflect.ValueOf(c.v)}
}
func (c *SendC[T]) got(reflect.Value, bool) {}

// Go starts a new logical thread.
func Go(f func()) { GoNamed("", f) }

func GoNamed(name string, f func()) *Thread {
	s := active()
	if s == nil {
		// free-running mode (the separate -race pass): a real goroutine
		t := &Thread{Name: name, exited: make(chan struct{}), free: true}
		go func() {
			defer close(t.exited)
			f()
		}()
		return t
	}
	s.mu.Lock()
	par := s.running
	par.spawned++
	if name == "" {
		name = fmt.Sprintf("%s/go%d", par.Name, par.spawned)
	}
	t := s.newThread(name)
	s.note(par, 7, t.nameH, 0)
	s.mu.Unlock()
	go s.threadMain(t, f)
	return t
}

// Join blocks the running thread until t has finished (harness threads only).
func Join(t *Thread) {
	s := active()
	if t == nil {
		return
	}
	if s == nil {
		if t.free {
			<-t.exited
		}
		return
	}
	s.point(&op{kind: opJoin, label: "join " + t.Name, ready: func() bool { return t.finished }}) // called with mu held
	s.note(s.running, 10, t.nameH, 0)
}

// Yield is a plain scheduling point.
func Yield(label string) {
	if s := active(); s != nil {
		s.point(&op{kind: opYield, label: label})
		s.note(s.running, 11, 0, 0)
	}
}

// After: the timer fires when the explorer says so (an environment action).
func After(d time.Duration) <-chan time.Time {
	s := active()
	if s == nil {
		return time.After(d)
	}
	s.mu.Lock()
	defer s.mu.Unlock()
	t := &timer{id: int(s.running.nops), owner: s.running, ch: make(chan time.Time, 1), at: s.clock + d}
	t.key = reflect.ValueOf(t.ch).Pointer()
	s.keep[t.key] = t.ch
	// a timer created by a thread that has created one before replaces it (the previous
	// select of that thread is over, nobody listens to the old channel any more)
	for _, o := range s.timers {
		if !o.fired && o.owner == s.running {
			o.stale = true
		}
	}
	s.timers = append(s.timers, t)
	s.note(s.running, 12, uint64(t.id), uint64(d))
	// the channel must look ready to the scheduler once fired: len(ch) > 0 does that
	return t.ch
}

func Now() time.Time {
	s := active()
	if s == nil {
		return time.Now()
	}
	s.mu.Lock()
	defer s.mu.Unlock()
	return time.Unix(0, int64(s.clock)+1_700_000_000_000_000_000)
}

// Intn: a choice of the explorer (0 by default).
func Intn(n int) int {
	s := active()
	if s == nil {
		return rand.Intn(n)
	}
	if n <= 1 {
		return 0
	}
	ls := make([]string, n)
	cs := make([]int, n)
	for i := range ls {
		ls[i] = fmt.Sprintf("rand.Intn(%d)=%d", n, i)
		if i > 0 {
			cs[i] = 1
		}
	}
	k := s.choose(ls, cs)
	s.note(s.running, 8, uint64(k), uint64(n))
	s.ev(Event{Kind: EvIntn, N: k, Case: -1})
	return k
}

// Chan creates a channel that the harness itself uses under the scheduler.
func Chan[T any](n int) chan T { return make(chan T, n) }

// WaitCond blocks the running thread until ready() holds or, when timeout > 0, until the
// explorer lets the timeout elapse (an environment action). It reports whether it timed out.
func WaitCond(label string, ready func() bool, timeout time.Duration) bool {
	s := active()
	if s == nil {
		// free-running mode: poll (the timeout is real but capped, the -race pass has no use for long waits)
		if timeout <= 0 || timeout > 2*time.Second {
			timeout = 2 * time.Second
		}
		end := time.Now().Add(timeout)
		for !ready() {
			if time.Now().After(end) {
				return true
			}
			time.Sleep(50 * time.Microsecond)
		}
		return false
	}
	var tc *RecvC[time.Time]
	o := &op{kind: opSelect, chosen: -1, label: label}
	o.cases = append(o.cases, selCase{label: label, ready: ready})
	if timeout > 0 {
		tc = RecvCase(After(timeout))
		o.cases = append(o.cases, tc.sel(s))
	}
	s.point(o)
	if o.chosen == 1 {
		s.note(s.running, 9, 1, s.popTok(key(tc.ch)))
		tc.perform()
		return true
	}
	s.note(s.running, 9, 0, 0)
	return false
}

// HTTPShutdown replaces srv.Shutdown(ctx) in instrumented code.
func HTTPShutdown(srv *http.Server, ctx context.Context) error {
	s := active()
	if s == nil {
		gmu.Lock()
		f := freeShutdownWait
		gmu.Unlock()
		if f != nil {
			return f(ctx)
		}
		return srv.Shutdown(ctx)
	}
	if s.ShutdownWait == nil {
		return srv.Shutdown(ctx)
	}
	return s.ShutdownWait(ctx)
}

var freeShutdownWait func(ctx context.Context) error

// SetShutdownWait installs the stand-in for http.Server.Shutdown (on the active scheduler,
// or for the free-running mode).
func SetShutdownWait(f func(ctx context.Context) error) {
	if s := active(); s != nil {
		s.ShutdownWait = f
		return
	}
	gmu.Lock()
	freeShutdownWait = f
	gmu.Unlock()
}

// Finished reports whether a thread has returned (for ready functions: called with the scheduler lock held).
func (t *Thread) Finished() bool {
	if t.free {
		select {
		case <-t.exited:
			return true
		default:
			return false
		}
	}
	return t.finished
}

// Current returns the active scheduler (nil in pass-through mode).
func Current() *Scheduler { return active() }

// KeyOf is the identity the event log uses for a channel.
func KeyOf(ch any) uintptr { return key(ch) }

// ---------------------------------------------------------------------------
// mutexes: under the scheduler the real sync.Mutex / sync.RWMutex is never touched
// (a logical thread parked while holding it would block the goroutine of another
// one for good); ownership is tracked here and Lock / RLock are blocking operations
// of the scheduler. A waiting writer excludes new readers, as sync.RWMutex does.
// ---------------------------------------------------------------------------

type lockState struct {
	writer  bool
	readers int
}

func lockKey(l any) uintptr {
	v := reflect.ValueOf(l)
	for v.Kind() == reflect.Ptr && v.Elem().Kind() == reflect.Ptr {
		v = v.Elem()
	}
	return v.Pointer()
}

func (s *Scheduler) lockOf(k uintptr) *lockState {
	st := s.locks[k]
	if st == nil {
		st = &lockState{}
		s.locks[k] = st
	}
	return st
}

const (
	opLockW opKind = iota + 100
	opLockR
)

func (s *Scheduler) writerWaiting(k uintptr, self *Thread) bool {
	for _, t := range s.threads {
		if t != self && !t.finished && t.pending != nil && t.pending.kind == opLockW && t.pending.lockKey == k {
			return true
		}
	}
	return false
}

// Lock / Unlock / RLock / RUnlock replace x.Lock() ... of a sync.Mutex or sync.RWMutex.
func Lock(l sync.Locker) {
	s := active()
	if s == nil {
		l.Lock()
		return
	}
	k := lockKey(l)
	st := s.lockOf(k)
	s.point(&op{kind: opLockW, lockKey: k, label: "Lock", ready: func() bool { return !st.writer && st.readers == 0 }})
	st.writer = true
	s.note(s.running, 13, 0, 0)
}

func Unlock(l sync.Locker) {
	s := active()
	if s == nil {
		l.Unlock()
		return
	}
	st := s.lockOf(lockKey(l))
	if !st.writer {
		panic("sync: unlock of unlocked mutex")
	}
	st.writer = false
	s.note(s.running, 14, 0, 0)
}

type rlocker interface {
	RLock()
	RUnlock()
}

func RLock(l rlocker) {
	s := active()
	if s == nil {
		l.RLock()
		return
	}
	k := lockKey(l)
	st := s.lockOf(k)
	var me *Thread
	s.mu.Lock()
	me = s.running
	s.mu.Unlock()
	s.point(&op{kind: opLockR, lockKey: k, label: "RLock", ready: func() bool { return !st.writer && !s.writerWaiting(k, me) }})
	st.readers++
	s.note(s.running, 15, 0, 0)
}

func RUnlock(l rlocker) {
	s := active()
	if s == nil {
		l.RUnlock()
		return
	}
	st := s.lockOf(lockKey(l))
	if st.readers <= 0 {
		panic("sync: RUnlock of unlocked RWMutex")
	}
	st.readers--
	s.note(s.running, 16, 0, 0)
}
