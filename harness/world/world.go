// Package world builds, in-process, the real resonate kernel (api queue, System,
// request and background coroutines, SQLite store, router, sender worker) around
// a controlled implementation of aio.AIO, so that an explorer decides which
// pending submission executes next, with which outcome, at which clock value.
package world

import (
	"context"
	"crypto/sha256"
	"database/sql"
	"encoding/hex"
	"encoding/json"
	"errors"
	"fmt"
	"io"
	"log/slog"
	"sort"
	"strings"
	"time"

	sqlite3 "github.com/mattn/go-sqlite3"
	"github.com/prometheus/client_golang/prometheus"
	"github.com/resonatehq/gocoro"
	"github.com/resonatehq/resonate/internal/aio"
	"github.com/resonatehq/resonate/internal/api"
	"github.com/resonatehq/resonate/internal/app/coroutines"
	"github.com/resonatehq/resonate/internal/app/subsystems/aio/router"
	"github.com/resonatehq/resonate/internal/app/subsystems/aio/sender"
	"github.com/resonatehq/resonate/internal/app/subsystems/aio/store/sqlite"
	"github.com/resonatehq/resonate/internal/kernel/bus"
	"github.com/resonatehq/resonate/internal/kernel/system"
	"github.com/resonatehq/resonate/internal/kernel/t_aio"
	"github.com/resonatehq/resonate/internal/kernel/t_api"
	"github.com/resonatehq/resonate/internal/metrics"
)

func init() {
	slog.SetDefault(slog.New(slog.NewTextHandler(io.Discard, &slog.HandlerOptions{Level: slog.Level(100)})))
}

type Outcome int

const (
	OK         Outcome = iota
	FailBefore         // not executed, error delivered
	FailAfter          // executed (committed), error delivered
	SendRefuse         // transport answered "not delivered" (success=false)
	SendError          // transport answered with an error
	CommitFail         // every statement succeeds but the COMMIT fails (SQLite rolls back)
	StmtFail           // the first row change in the tasks / callbacks table fails (a statement in the middle of the transaction returns an error)
	Late               // executed now, the completion reaches the coroutine with the NEXT tick (whatever causes it: another completion, a clock step, a sweep)
)

func (o Outcome) String() string {
	return [...]string{"ok", "fail-before", "fail-after", "send-refused", "send-error", "commit-fails", "statement-fails", "ok-delivered-with-the-next-tick"}[o]
}

var BackgroundNames = []string{"TimeoutPromises", "SchedulePromises", "TimeoutLocks", "EnqueueTasks", "TimeoutTasks"}

type Config struct {
	System        system.Config
	Gated         bool // background coroutines start only when their gate was opened
	RouterSources []router.SourceConfig
	SenderTargets []sender.TargetConfig
	DBFile        string // "" = shared-cache in-memory database
	APISize       int
	StoreReset    bool
	NoBackground  bool
	Image         *Image // database image to start from (in-memory databases only)
	CommitFaults  bool   // install the machinery that can make a COMMIT fail (deferred foreign key)
}

func DefaultConfig() Config {
	return Config{
		System: system.Config{
			Url:                 "http://verif",
			CoroutineMaxSize:    1000,
			SubmissionBatchSize: 1000,
			CompletionBatchSize: 1000,
			PromiseBatchSize:    100,
			ScheduleBatchSize:   100,
			TaskBatchSize:       100,
			TaskEnqueueDelay:    10 * time.Second,
			SignalTimeout:       0,
		},
		Gated:   true,
		APISize: 100,
	}
}

// Req is one client request and what became of it.
type Req struct {
	Id          string
	Client      int
	Idx         int
	Req         *t_api.Request
	SubmitStep  int
	SubmitClock int64
	Done        bool // a response (or error) was delivered
	Lost        bool // the server crashed while it was in flight
	Res         *t_api.Response
	Err         error
	ResStep     int
	ResClock    int64
	Gen         int // server generation it was submitted to
}

func (r *Req) Status() int {
	if r.Err != nil {
		var e *t_api.Error
		if errors.As(r.Err, &e) {
			return int(e.Code())
		}
		return -1
	}
	if r.Res == nil {
		return 0
	}
	return int(r.Res.Status())
}

type Pending struct {
	Seq    int
	SQE    *bus.SQE[t_aio.Submission, t_aio.Completion]
	Owner  string
	Digest string
	Clock  int64 // clock when it was submitted
}

func (p *Pending) Kind() t_aio.Kind { return p.SQE.Submission.Kind }

func (p *Pending) Label() string {
	s := p.SQE.Submission
	switch s.Kind {
	case t_aio.Store:
		ks := []string{}
		for _, c := range s.Store.Transaction.Commands {
			ks = append(ks, c.Kind.String())
		}
		return fmt.Sprintf("%s:store[%s]", p.Owner, strings.Join(ks, ","))
	case t_aio.Router:
		return p.Owner + ":router"
	case t_aio.Sender:
		return fmt.Sprintf("%s:send[%s/%d]", p.Owner, s.Sender.Task.Id, s.Sender.Task.Counter)
	}
	return p.Owner + ":?"
}

// Events handed to monitors.

type CommitEvent struct {
	Step    int
	Clock   int64
	Owners  []string
	SubClocks []int64 // clock at which each submission was made (the coroutine's deciding step)
	Subs    []*t_aio.Submission
	Before  *Dump
	After   *Dump
	Results [][]*t_aio.Result // nil if the transaction failed
	Err     error
	Outcome Outcome
	Gen     int
}

type SendEvent struct {
	Step    int
	Clock   int64
	Owner   string
	Sub     *t_aio.SenderSubmission
	Reached bool // a plugin was reached
	Plugin  string
	Msg     *aio.Message
	Outcome Outcome
	Err     error
	Success bool
	DB      *Dump
}

type RouteEvent struct {
	Step    int
	Owner   string
	Sub     *t_aio.RouterSubmission
	Matched bool
	Recv    []byte
	Err     error
}

type Monitor interface {
	OnCommit(w *World, e *CommitEvent)
	OnSubmit(w *World, r *Req)
	OnResponse(w *World, r *Req)
	OnSend(w *World, e *SendEvent)
	OnRoute(w *World, e *RouteEvent)
	OnCrash(w *World)
	OnEnd(w *World)
	// OnStart is called once the setup state is in place (freshly produced or
	// restored from a snapshot): path-dependent monitor state must be
	// (re)initialised here from w.Dump().
	OnStart(w *World)
	Key() string
}

type BaseMonitor struct{}

func (BaseMonitor) OnCommit(*World, *CommitEvent) {}
func (BaseMonitor) OnResponse(*World, *Req)       {}
func (BaseMonitor) OnSubmit(*World, *Req)         {}
func (BaseMonitor) OnSend(*World, *SendEvent)     {}
func (BaseMonitor) OnRoute(*World, *RouteEvent)   {}
func (BaseMonitor) OnCrash(*World)                {}
func (BaseMonitor) OnEnd(*World)                  {}
func (BaseMonitor) OnStart(*World)                {}
func (BaseMonitor) Key() string                   { return "" }

type Violation struct {
	Sig  string // signature: what failed, independent of the schedule
	Msg  string
	Step int
}

// ctlAIO is the controlled aio.AIO.
type ctlAIO struct {
	w       *World
	gen     int
	pending []*Pending
	cqes    []*bus.CQE[t_aio.Submission, t_aio.Completion]
}

func (a *ctlAIO) String() string                                  { return "aio:verif" }
func (a *ctlAIO) Start() error                                    { return nil }
func (a *ctlAIO) Stop() error                                     { return nil }
func (a *ctlAIO) Shutdown()                                       {}
func (a *ctlAIO) Errors() <-chan error                            { return nil }
func (a *ctlAIO) Signal(<-chan interface{}) <-chan interface{}    { panic("ctlAIO.Signal: not used") }
func (a *ctlAIO) Flush(int64)                                     {}
func (a *ctlAIO) EnqueueCQE(cqe *bus.CQE[t_aio.Submission, t_aio.Completion]) { a.cqes = append(a.cqes, cqe) }

func (a *ctlAIO) DequeueCQE(n int) []*bus.CQE[t_aio.Submission, t_aio.Completion] {
	if n > len(a.cqes) {
		n = len(a.cqes)
	}
	out := a.cqes[:n]
	a.cqes = a.cqes[n:]
	return out
}

func (a *ctlAIO) Dispatch(sub *t_aio.Submission, cb func(*t_aio.Completion, error)) {
	if sub.Tags == nil || sub.Tags["id"] == "" {
		panic("verif: submission without id tag")
	}
	a.EnqueueSQE(&bus.SQE[t_aio.Submission, t_aio.Completion]{Id: sub.Tags["id"], Submission: sub, Callback: cb})
}

func (a *ctlAIO) EnqueueSQE(sqe *bus.SQE[t_aio.Submission, t_aio.Completion]) {
	a.w.seq++
	a.pending = append(a.pending, &Pending{Seq: a.w.seq, SQE: sqe, Owner: sqe.Submission.Tags["id"], Digest: subDigest(sqe.Submission), Clock: a.w.Clock})
}

func subDigest(s *t_aio.Submission) string {
	var b []byte
	switch s.Kind {
	case t_aio.Store:
		b, _ = json.Marshal(s.Store.Transaction)
	case t_aio.Router:
		b, _ = json.Marshal(s.Router)
	case t_aio.Sender:
		b, _ = json.Marshal(struct {
			S *t_aio.SenderSubmission
			T any
		}{s.Sender, taskAll(s.Sender)})
	case t_aio.Echo:
		b, _ = json.Marshal(s.Echo)
	}
	return fmt.Sprintf("%d:%s", s.Kind, b)
}

func taskAll(s *t_aio.SenderSubmission) any {
	t := s.Task
	if t == nil {
		return nil
	}
	return []any{t.State, t.RootPromiseId, string(t.Recv), t.Mesg, t.Attempt, t.Ttl, t.ExpiresAt}
}

func firstLineOf(s string) string {
	if i := strings.IndexByte(s, '\n'); i >= 0 {
		s = s[:i]
	}
	if len(s) > 100 {
		s = s[:100]
	}
	return s
}

func short(s string) string {
	h := sha256.Sum256([]byte(s))
	return hex.EncodeToString(h[:8])
}

type World struct {
	Cfg      Config
	Clock    int64
	Step     int
	Gen      int
	Reqs     []*Req
	Monitors []Monitor
	Viol     []Violation
	Log      []string
	KeepLog  bool
	PreCrash *Dump // database as it stood when the server was killed

	lateNow  bool
	lateHist []lateEntry

	metrics *metrics.Metrics
	api     api.API
	aio     *ctlAIO
	sys     *system.System
	store   *sqlite.SqliteStore
	db      *sql.DB
	dsn     string
	router  *router.Router
	sender  *sender.Sender
	cap     *capture
	gates   map[string]bool
	hist    map[string][]string // owner -> what it has been handed
	seq     int
	last    *Dump
	closed  bool

	lastChanges int64
	dumpStmts   []*sql.Stmt
}

// capture is the transport plugin: it records the message and answers as told.
type capture struct {
	typ  string
	w    *World
	next Outcome
	got  *aio.Message
	hit  string
}

type capPlugin struct {
	c   *capture
	typ string
}

func (p *capPlugin) String() string            { return "verif:" + p.typ }
func (p *capPlugin) Type() string              { return p.typ }
func (p *capPlugin) Start(chan<- error) error  { return nil }
func (p *capPlugin) Stop() error               { return nil }
func (p *capPlugin) Enqueue(m *aio.Message) bool {
	p.c.got = m
	p.c.hit = p.typ
	switch p.c.next {
	case SendRefuse:
		m.Done(false, nil)
	case SendError:
		m.Done(false, errors.New("verif: transport error"))
	default:
		m.Done(true, nil)
	}
	return true
}

func New(cfg Config, monitors ...Monitor) *World {
	w := &World{Cfg: cfg, Monitors: monitors, gates: map[string]bool{}, hist: map[string][]string{}}
	if cfg.DBFile == "" {
		w.dsn = ":memory:"
	} else {
		w.dsn = cfg.DBFile
	}
	w.boot(cfg.Image)
	return w
}

// installCommitFaults: a COMMIT can be made to fail without touching the code under
// test. A trigger on every table inserts, while armed, a row into a table with a
// DEFERRED foreign key that cannot be satisfied: every statement of the transaction
// succeeds and reports its rows, the constraint is only checked at COMMIT, which
// fails, and SQLite rolls the transaction back.
func (w *World) installCommitFaults() {
	stmts := []string{
		`PRAGMA foreign_keys = ON`,
		`CREATE TABLE IF NOT EXISTS verif_arm (armed INTEGER)`,
		`INSERT INTO verif_arm SELECT 0 WHERE NOT EXISTS (SELECT 1 FROM verif_arm)`,
		`CREATE TABLE IF NOT EXISTS verif_fk_parent (id TEXT PRIMARY KEY)`,
		`CREATE TABLE IF NOT EXISTS verif_fk (x TEXT REFERENCES verif_fk_parent(id) DEFERRABLE INITIALLY DEFERRED)`,
	}
	for _, t := range []string{"promises", "callbacks", "schedules", "locks", "tasks"} {
		for _, op := range []string{"INSERT", "UPDATE", "DELETE"} {
			stmts = append(stmts, fmt.Sprintf(`CREATE TRIGGER IF NOT EXISTS verif_cf_%s_%s AFTER %s ON %s WHEN (SELECT armed FROM verif_arm) = 1 BEGIN INSERT INTO verif_fk(x) VALUES ('missing'); END`, t, op, op, t))
		}
	}
	// a statement that fails in the middle of a transaction: while armed = 2 the first row
	// change in tasks or callbacks raises an error (the commands before it have succeeded)
	for _, t := range []string{"tasks", "callbacks"} {
		for _, op := range []string{"INSERT", "UPDATE", "DELETE"} {
			stmts = append(stmts, fmt.Sprintf(`CREATE TRIGGER IF NOT EXISTS verif_sf_%s_%s BEFORE %s ON %s WHEN (SELECT armed FROM verif_arm) = 2 BEGIN SELECT RAISE(ABORT, 'verif injected statement failure'); END`, t, op, op, t))
		}
	}
	for _, q := range stmts {
		if _, err := w.db.Exec(q); err != nil {
			panic(fmt.Sprintf("verif: commit-fault machinery: %v (%s)", err, q))
		}
	}
}

func (w *World) arm(on int) {
	if _, err := w.db.Exec(`UPDATE verif_arm SET armed = ?`, on); err != nil {
		panic(fmt.Sprintf("verif: arm: %v", err))
	}
}

// Snapshot returns an image of the database (SQLite serialize).
func (w *World) Snapshot() []byte {
	var out []byte
	conn, err := w.db.Conn(context.Background())
	if err != nil {
		panic(err)
	}
	defer conn.Close()
	err = conn.Raw(func(dc any) error {
		b, err := dc.(*sqlite3.SQLiteConn).Serialize("main")
		out = b
		return err
	})
	if err != nil {
		panic(fmt.Sprintf("verif: serialize: %v", err))
	}
	return out
}

// Image is a database snapshot. It is kept deserialized in a private source
// connection and copied into a world's connection with SQLite's backup API, so
// that the restored database is an ordinary growable in-memory database
// (sqlite3_deserialize alone yields a fixed-size one that fails with SQLITE_FULL
// as soon as it needs another page).
type Image struct {
	Bytes []byte
	src   *sql.DB
}

func (im *Image) source() *sql.DB {
	if im.src != nil {
		return im.src
	}
	db, err := sql.Open("sqlite3", ":memory:")
	if err != nil {
		panic(err)
	}
	db.SetMaxOpenConns(1)
	conn, err := db.Conn(context.Background())
	if err != nil {
		panic(err)
	}
	err = conn.Raw(func(dc any) error { return dc.(*sqlite3.SQLiteConn).Deserialize(im.Bytes, "main") })
	conn.Close()
	if err != nil {
		panic(fmt.Sprintf("verif: deserialize: %v", err))
	}
	im.src = db
	return db
}

func (im *Image) Close() {
	if im.src != nil {
		_ = im.src.Close()
		im.src = nil
	}
}

func restore(db *sql.DB, im *Image) {
	ctx := context.Background()
	sc, err := im.source().Conn(ctx)
	if err != nil {
		panic(err)
	}
	defer sc.Close()
	dcn, err := db.Conn(ctx)
	if err != nil {
		panic(err)
	}
	defer dcn.Close()
	err = sc.Raw(func(srcRaw any) error {
		return dcn.Raw(func(dstRaw any) error {
			b, err := dstRaw.(*sqlite3.SQLiteConn).Backup("main", srcRaw.(*sqlite3.SQLiteConn), "main")
			if err != nil {
				return err
			}
			if _, err := b.Step(-1); err != nil {
				_ = b.Finish()
				return err
			}
			return b.Finish()
		})
	})
	if err != nil {
		panic(fmt.Sprintf("verif: restore: %v", err))
	}
}

// Restore replaces the database content with a snapshot (used to skip the
// deterministic setup prefix of a scenario).
func (w *World) Restore(img *Image, clock int64) {
	restore(w.db, img)
	w.Clock = clock
	w.last = nil
	w.lastChanges = -1
}

func (w *World) boot(img *Image) {
	w.Gen++
	reg := prometheus.NewRegistry()
	w.metrics = metrics.New(reg)
	w.api = api.New(w.Cfg.APISize, w.metrics)
	w.aio = &ctlAIO{w: w, gen: w.Gen}

	r, err := router.New(w.aio, w.metrics, &router.Config{Size: 10, Workers: 1, Sources: w.Cfg.RouterSources})
	if err != nil {
		panic(fmt.Sprintf("verif: router.New: %v", err))
	}
	w.router = r

	s, err := sender.New(w.aio, w.metrics, &sender.Config{Size: 10, Targets: w.Cfg.SenderTargets})
	if err != nil {
		panic(fmt.Sprintf("verif: sender.New: %v", err))
	}
	w.sender = s
	w.cap = &capture{w: w}
	s.VerifWorker().AddPlugin(&capPlugin{c: w.cap, typ: "http"})
	s.VerifWorker().AddPlugin(&capPlugin{c: w.cap, typ: "poll"})

	st, err := sqlite.New(w.aio, w.metrics, &sqlite.Config{Size: 10, BatchSize: 10, Path: w.dsn, TxTimeout: time.Hour, Reset: w.Cfg.StoreReset})
	if err != nil {
		panic(fmt.Sprintf("verif: sqlite.New: %v", err))
	}
	w.store = st
	w.db = st.VerifDB()
	w.db.SetMaxOpenConns(1)
	w.dumpStmts = nil
	var stored *Dump
	if img != nil {
		restore(w.db, img)
		if d, err := DumpDB(w.db); err == nil {
			stored = d
		}
	}
	if err := st.Start(nil); err != nil {
		panic(fmt.Sprintf("verif: store start: %v", err))
	}
	if stored != nil {
		// starting the store on an existing database must leave the stored data alone
		w.dumpStmts = nil
		if d, err := DumpDB(w.db); err != nil || d.Text() != stored.Text() {
			after := "unreadable"
			if err == nil {
				after = d.Text()
			}
			w.Violate("restart-changed-database", "starting the server on an existing database changed the stored data:\nstored:\n%s\nafter start:\n%s", stored.Text(), after)
		}
		w.dumpStmts = nil
	}
	if w.Cfg.CommitFaults {
		w.installCommitFaults()
	}
	w.lastChanges = -1

	cfg := w.Cfg.System
	w.sys = system.New(w.api, w.aio, &cfg, w.metrics)
	sys := w.sys
	sys.AddOnRequest(t_api.ReadPromise, coroutines.ReadPromise)
	sys.AddOnRequest(t_api.SearchPromises, coroutines.SearchPromises)
	sys.AddOnRequest(t_api.CreatePromise, coroutines.CreatePromise)
	sys.AddOnRequest(t_api.CreatePromiseAndTask, coroutines.CreatePromiseAndTask)
	sys.AddOnRequest(t_api.CreateCallback, coroutines.CreateCallback)
	sys.AddOnRequest(t_api.CreateSubscription, coroutines.CreateSubscription)
	sys.AddOnRequest(t_api.CompletePromise, coroutines.CompletePromise)
	sys.AddOnRequest(t_api.ReadSchedule, coroutines.ReadSchedule)
	sys.AddOnRequest(t_api.SearchSchedules, coroutines.SearchSchedules)
	sys.AddOnRequest(t_api.CreateSchedule, coroutines.CreateSchedule)
	sys.AddOnRequest(t_api.DeleteSchedule, coroutines.DeleteSchedule)
	sys.AddOnRequest(t_api.AcquireLock, coroutines.AcquireLock)
	sys.AddOnRequest(t_api.HeartbeatLocks, coroutines.HeartbeatLocks)
	sys.AddOnRequest(t_api.ReleaseLock, coroutines.ReleaseLock)
	sys.AddOnRequest(t_api.ClaimTask, coroutines.ClaimTask)
	sys.AddOnRequest(t_api.CompleteTask, coroutines.CompleteTask)
	sys.AddOnRequest(t_api.HeartbeatTasks, coroutines.HeartbeatTasks)

	if !w.Cfg.NoBackground {
		type bgf = func(*system.Config, map[string]string) gocoro.CoroutineFunc[*t_aio.Submission, *t_aio.Completion, any]
		bgs := map[string]bgf{
			"TimeoutPromises":  coroutines.TimeoutPromises,
			"SchedulePromises": coroutines.SchedulePromises,
			"TimeoutLocks":     coroutines.TimeoutLocks,
			"EnqueueTasks":     coroutines.EnqueueTasks,
			"TimeoutTasks":     coroutines.TimeoutTasks,
		}
		for _, name := range BackgroundNames {
			name, f := name, bgs[name]
			if w.Cfg.Gated {
				sys.AddBackground(name, func(c *system.Config, tags map[string]string) gocoro.CoroutineFunc[*t_aio.Submission, *t_aio.Completion, any] {
					if w.gates[name] {
						w.gates[name] = false
						// the kernel's own SignalTimeout is 0 so that a gated sweep is always
						// due; the coroutine itself sees the production default (1s)
						c2 := *c
						c2.SignalTimeout = time.Second
						return f(&c2, tags)
					}
					return func(gocoro.Coroutine[*t_aio.Submission, *t_aio.Completion, any]) (any, error) { return nil, nil }
				})
			} else {
				sys.AddBackground(name, f)
			}
		}
	}
}

func (w *World) logf(format string, a ...any) {
	if w.KeepLog {
		w.Log = append(w.Log, fmt.Sprintf("[%d t=%d] ", w.Step, w.Clock)+fmt.Sprintf(format, a...))
	}
}

func (w *World) Violate(sig, format string, a ...any) {
	w.Viol = append(w.Viol, Violation{Sig: sig, Msg: fmt.Sprintf(format, a...), Step: w.Step})
}

func (w *World) DB() *sql.DB { return w.db }

// API is the real api queue object the front ends talk to (it changes on restart).
func (w *World) API() api.API { return w.api }

func (w *World) totalChanges() int64 {
	var n int64
	if err := w.db.QueryRow("SELECT total_changes()").Scan(&n); err != nil {
		panic(fmt.Sprintf("verif: total_changes: %v", err))
	}
	return n
}

// Dump returns the current content of the five tables. The previous dump is
// reused when SQLite's total_changes() counter says that no row was inserted,
// updated or deleted on the (single) connection since it was taken.
func (w *World) Dump() *Dump {
	tc := w.totalChanges()
	if w.last != nil && tc == w.lastChanges {
		return w.last
	}
	if w.dumpStmts == nil {
		for _, q := range dumpQueries {
			st, err := w.db.Prepare(q)
			if err != nil {
				panic(fmt.Sprintf("verif: prepare dump: %v", err))
			}
			w.dumpStmts = append(w.dumpStmts, st)
		}
	}
	d, err := TakeDump(w.dumpStmts)
	if err != nil {
		panic(fmt.Sprintf("verif: dump: %v", err))
	}
	w.last = d
	w.lastChanges = w.totalChanges()
	return d
}

func (w *World) Pending() []*Pending { return w.aio.pending }

// Tick runs the real kernel until it blocks.
func (w *World) Tick() {
	for _, l := range w.lateHist {
		if h := w.hist[l.owner]; l.idx < len(h) {
			h[l.idx] = short(l.digest + fmt.Sprintf("@%d", w.Clock))
		}
	}
	w.lateHist = nil
	w.sys.Tick(w.Clock)
}

type lateEntry struct {
	owner  string
	idx    int
	digest string
}

// Submit hands a request to the real api queue and ticks.
func (w *World) Submit(client int, idx int, req *t_api.Request) *Req {
	w.Step++
	r := &Req{Id: fmt.Sprintf("c%dr%d", client, idx), Client: client, Idx: idx, Req: req, SubmitStep: w.Step, SubmitClock: w.Clock, Gen: w.Gen}
	if req.Tags == nil {
		req.Tags = map[string]string{}
	}
	req.Tags["id"] = r.Id
	req.Tags["name"] = req.Kind.String()
	req.Tags["protocol"] = "verif"
	w.Reqs = append(w.Reqs, r)
	gen := w.Gen
	w.logf("submit %s %s", r.Id, req)
	for _, m := range w.Monitors {
		m.OnSubmit(w, r)
	}
	w.api.EnqueueSQE(&bus.SQE[t_api.Request, t_api.Response]{
		Id:         r.Id,
		Submission: req,
		Callback: func(res *t_api.Response, err error) {
			if r.Done {
				w.Violate("C12:double-response", "request %s answered twice", r.Id)
				return
			}
			if gen != w.Gen || r.Lost {
				return // reply of a dead server: never reaches the client
			}
			r.Done, r.Res, r.Err, r.ResStep, r.ResClock = true, res, err, w.Step, w.Clock
			w.logf("response %s status=%d", r.Id, r.Status())
			for _, m := range w.Monitors {
				m.OnResponse(w, r)
			}
		},
	})
	w.Tick()
	return r
}

func complDigest(c *t_aio.Completion, err error) string {
	if err != nil {
		return "err:" + err.Error()
	}
	var b []byte
	switch c.Kind {
	case t_aio.Store:
		b, _ = json.Marshal(c.Store.Results)
	case t_aio.Router:
		b, _ = json.Marshal(c.Router)
	case t_aio.Sender:
		b, _ = json.Marshal(c.Sender)
	}
	return string(b)
}

func (w *World) deliver(p *Pending, cqe *bus.CQE[t_aio.Submission, t_aio.Completion]) {
	// what an owner (request or sweep instance) has been handed: a multiset of
	// (submission, completion, clock of delivery). The order of deliveries is not
	// part of a coroutine's state: it awaits specific promises in program order and
	// observes, per completion, only its value and the tick time at which it resumes.
	if w.lateNow {
		// the delivery clock is that of the next tick: filled in by Tick
		w.lateHist = append(w.lateHist, lateEntry{p.Owner, len(w.hist[p.Owner]), p.Digest + ">" + complDigest(cqe.Completion, cqe.Error)})
		w.hist[p.Owner] = append(w.hist[p.Owner], "late")
	} else {
		w.hist[p.Owner] = append(w.hist[p.Owner], short(p.Digest+">"+complDigest(cqe.Completion, cqe.Error)+fmt.Sprintf("@%d", w.Clock)))
	}
	w.aio.cqes = append(w.aio.cqes, cqe)
}

func (w *World) remove(idxs []int) []*Pending {
	out := make([]*Pending, len(idxs))
	del := map[int]bool{}
	for i, ix := range idxs {
		out[i] = w.aio.pending[ix]
		del[ix] = true
	}
	rest := w.aio.pending[:0:0]
	for i, p := range w.aio.pending {
		if !del[i] {
			rest = append(rest, p)
		}
	}
	w.aio.pending = rest
	return out
}

// Exec executes pending submission idx with the given outcome and ticks.
func (w *World) Exec(idx int, o Outcome) {
	p := w.aio.pending[idx]
	switch p.Kind() {
	case t_aio.Store:
		w.ExecBatch([]int{idx}, o)
		return
	}
	w.Step++
	w.remove([]int{idx})
	w.logf("exec %s -> %s", p.Label(), o)
	switch p.Kind() {
	case t_aio.Router:
		var cqe *bus.CQE[t_aio.Submission, t_aio.Completion]
		if o == FailBefore || o == FailAfter {
			cqe = &bus.CQE[t_aio.Submission, t_aio.Completion]{Id: p.SQE.Id, Callback: p.SQE.Callback, Error: errors.New("verif: injected router failure")}
		} else {
			cqe = w.router.Process([]*bus.SQE[t_aio.Submission, t_aio.Completion]{p.SQE})[0]
		}
		ev := &RouteEvent{Step: w.Step, Owner: p.Owner, Sub: p.SQE.Submission.Router, Err: cqe.Error}
		if cqe.Completion != nil {
			ev.Matched, ev.Recv = cqe.Completion.Router.Matched, cqe.Completion.Router.Recv
		}
		for _, m := range w.Monitors {
			m.OnRoute(w, ev)
		}
		w.deliver(p, cqe)
	case t_aio.Sender:
		ev := &SendEvent{Step: w.Step, Clock: w.Clock, Owner: p.Owner, Sub: p.SQE.Submission.Sender, Outcome: o, DB: w.Dump()}
		if o == FailBefore {
			cqe := &bus.CQE[t_aio.Submission, t_aio.Completion]{Id: p.SQE.Id, Callback: p.SQE.Callback, Error: errors.New("verif: injected sender failure")}
			ev.Err = cqe.Error
			w.deliver(p, cqe)
		} else {
			w.cap.next, w.cap.got, w.cap.hit = o, nil, ""
			n := len(w.aio.cqes)
			w.sender.VerifWorker().Process(p.SQE)
			if len(w.aio.cqes) != n+1 {
				w.Violate("C12:sender-completions", "sender produced %d completions for one submission", len(w.aio.cqes)-n)
			}
			var cqe *bus.CQE[t_aio.Submission, t_aio.Completion]
			if len(w.aio.cqes) > n {
				cqe = w.aio.cqes[n]
				w.aio.cqes = w.aio.cqes[:n]
			} else {
				cqe = &bus.CQE[t_aio.Submission, t_aio.Completion]{Id: p.SQE.Id, Callback: p.SQE.Callback, Error: errors.New("verif: no completion")}
			}
			ev.Reached, ev.Plugin, ev.Msg, ev.Err = w.cap.got != nil, w.cap.hit, w.cap.got, cqe.Error
			if cqe.Completion != nil {
				ev.Success = cqe.Completion.Sender.Success
			}
			w.deliver(p, cqe)
		}
		for _, m := range w.Monitors {
			m.OnSend(w, ev)
		}
	default:
		panic("verif: unexpected submission kind")
	}
	w.Tick()
}

// ExecBatch executes several pending store submissions in ONE SQL transaction.
func (w *World) ExecBatch(idxs []int, o Outcome) {
	w.Step++
	ps := w.remove(idxs)
	labels := []string{}
	for _, p := range ps {
		if p.Kind() != t_aio.Store {
			panic("verif: batch of non-store submission")
		}
		labels = append(labels, p.Label())
	}
	w.logf("exec %s -> %s", strings.Join(labels, " + "), o)
	if o == FailBefore {
		for _, p := range ps {
			w.deliver(p, &bus.CQE[t_aio.Submission, t_aio.Completion]{Id: p.SQE.Id, Callback: p.SQE.Callback, Error: errors.New("verif: injected store failure before execution")})
		}
		w.Tick()
		return
	}
	before := w.Dump()
	sqes := make([]*bus.SQE[t_aio.Submission, t_aio.Completion], len(ps))
	ev := &CommitEvent{Step: w.Step, Clock: w.Clock, Before: before, Outcome: o, Gen: w.Gen}
	for i, p := range ps {
		sqes[i] = p.SQE
		ev.Owners = append(ev.Owners, p.Owner)
		ev.SubClocks = append(ev.SubClocks, p.Clock)
		ev.Subs = append(ev.Subs, p.SQE.Submission)
	}
	if o == CommitFail {
		w.arm(1)
	}
	if o == StmtFail {
		w.arm(2)
	}
	cqes := w.store.Process(sqes)
	if o == CommitFail || o == StmtFail {
		w.arm(0)
	}
	w.lateNow = o == Late
	ev.After = w.Dump()
	if len(cqes) != len(sqes) {
		panic("verif: store.Process returned a different number of completions")
	}
	for _, c := range cqes {
		if c.Error != nil {
			ev.Err = c.Error
		}
	}
	if ev.Err != nil && o != CommitFail && o != StmtFail {
		// (other than the injected COMMIT failure) the explorer injects failures by
		// replacing completions, never by making SQL fail: an error out of the store
		// itself is never silently explored past
		w.Violate("store-error:"+firstLineOf(ev.Err.Error()), "the store failed a transaction on its own (%v): %v", labels, ev.Err)
	}
	if ev.Err == nil {
		for _, c := range cqes {
			ev.Results = append(ev.Results, c.Completion.Store.Results)
		}
	}
	for _, m := range w.Monitors {
		m.OnCommit(w, ev)
	}
	for i, p := range ps {
		c := cqes[i]
		if o == FailAfter {
			c = &bus.CQE[t_aio.Submission, t_aio.Completion]{Id: c.Id, Callback: c.Callback, Error: errors.New("verif: injected store failure after commit")}
		}
		w.deliver(p, c)
	}
	w.lateNow = false
	if o == Late {
		return // the completions wait in the completion queue for the next tick
	}
	w.Tick()
}

// OpenGate lets the next Tick start one real instance of background coroutine name.
func (w *World) OpenGate(name string) {
	w.Step++
	w.logf("sweep %s", name)
	w.gates[name] = true
	w.Tick()
	if w.gates[name] {
		// previous instance still running: the kernel did not start a new one
		w.gates[name] = false
	}
}

func (w *World) SetClock(t int64) {
	w.Step++
	if t < w.Clock {
		panic("verif: clock going backwards")
	}
	w.Clock = t
	w.logf("clock %d", t)
	w.Tick()
}

// drain ends the coroutines of an abandoned server by failing every submission
// they make, without touching the store.
func (w *World) drain(sys *system.System, a *ctlAIO) {
	for i := 0; i < 10000; i++ {
		if len(a.pending) == 0 && len(a.cqes) == 0 {
			return
		}
		for _, p := range a.pending {
			a.cqes = append(a.cqes, &bus.CQE[t_aio.Submission, t_aio.Completion]{Id: p.SQE.Id, Callback: p.SQE.Callback, Error: errors.New("verif: server is dead")})
		}
		a.pending = nil
		sys.Tick(w.Clock)
	}
	panic("verif: drain did not terminate")
}

// Crash kills the server (all in-flight coroutines and responses are lost) and
// boots a new one on the same database.
func (w *World) Crash() {
	w.Step++
	w.logf("crash")
	w.lateHist = nil
	w.PreCrash = w.Dump()
	for _, r := range w.Reqs {
		if !r.Done && !r.Lost {
			r.Lost = true
		}
	}
	oldSys, oldAio, oldStore := w.sys, w.aio, w.store
	for k := range w.gates {
		w.gates[k] = false
	}
	w.hist = map[string][]string{}
	var img *Image
	if w.Cfg.DBFile == "" {
		img = &Image{Bytes: w.Snapshot()}
		defer img.Close()
	}
	oldDB, oldStmts := w.db, w.dumpStmts
	w.boot(img)
	w.drain(oldSys, oldAio)
	oldStore.VerifCloseQueue()
	for _, st := range oldStmts {
		_ = st.Close()
	}
	_ = oldDB.Close()
	w.last = nil
	for _, m := range w.Monitors {
		m.OnCrash(w)
	}
	w.Tick()
}

// Quiesce executes pending submissions oldest first, all OK, until none is left.
// Undelivered: completions executed with outcome Late that no tick has delivered yet.
func (w *World) Undelivered() int { return len(w.aio.cqes) }

// Flush delivers completions that were executed with outcome Late and not delivered yet.
func (w *World) Flush() {
	if len(w.aio.cqes) > 0 {
		w.Step++
		w.logf("tick (late completions delivered)")
		w.Tick()
	}
}

func (w *World) Quiesce() {
	w.Flush()
	for i := 0; len(w.aio.pending) > 0; i++ {
		if i > 3000 {
			panic("verif: quiesce did not terminate (a request or sweep keeps issuing submissions)")
		}
		w.Exec(0, OK)
	}
}

// Do runs one request to completion with nothing else in between.
func (w *World) Do(client, idx int, req *t_api.Request) *Req {
	r := w.Submit(client, idx, req)
	w.Quiesce()
	return r
}

// Sweep runs one background coroutine instance to completion.
func (w *World) Sweep(name string) {
	w.OpenGate(name)
	w.Quiesce()
}

func (w *World) End() {
	for _, m := range w.Monitors {
		m.OnEnd(w)
	}
}

func (w *World) Close() {
	if w.closed {
		return
	}
	w.closed = true
	w.drain(w.sys, w.aio)
	for _, st := range w.dumpStmts {
		_ = st.Close()
	}
	_ = w.store.Stop()
}

// Key is the canonical state of the world: equal keys have equal futures.
func (w *World) Key(withResponses bool, orderedPending bool) string {
	var b strings.Builder
	b.WriteString(w.Dump().Text())
	fmt.Fprintf(&b, "clock=%d gen=%d\n", w.Clock, w.Gen)
	pl := make([]string, 0, len(w.aio.pending))
	for _, p := range w.aio.pending {
		pl = append(pl, fmt.Sprintf("pend %s %s\n", p.Owner, short(p.Digest)))
	}
	if !orderedPending {
		// the order of the pending list only matters to the preemption count
		sort.Strings(pl)
	}
	for _, l := range pl {
		b.WriteString(l)
	}
	live := map[string]bool{}
	for _, p := range w.aio.pending {
		live[p.Owner] = true
	}
	for _, l := range w.lateHist {
		live[l.owner] = true
		fmt.Fprintf(&b, "undelivered %s %s\n", l.owner, short(l.digest))
	}
	owners := make([]string, 0, len(live))
	for o := range live {
		owners = append(owners, o)
	}
	sort.Strings(owners)
	for _, o := range owners {
		h := append([]string{}, w.hist[o]...)
		sort.Strings(h)
		fmt.Fprintf(&b, "hist %s %s\n", o, strings.Join(h, ","))
	}
	for _, r := range w.Reqs {
		fmt.Fprintf(&b, "req %s done=%v lost=%v", r.Id, r.Done, r.Lost)
		if !r.Done && !r.Lost {
			fmt.Fprintf(&b, " q=%s", short(r.Req.String()))
		}
		if withResponses && r.Done {
			fmt.Fprintf(&b, " res=%s", short(RenderResponse(r)))
		}
		b.WriteByte('\n')
	}
	gs := sortedKeys(w.gates)
	for _, g := range gs {
		if w.gates[g] {
			fmt.Fprintf(&b, "gate %s\n", g)
		}
	}
	for i, m := range w.Monitors {
		if k := m.Key(); k != "" {
			fmt.Fprintf(&b, "mon%d %s\n", i, k)
		}
	}
	return b.String()
}

// RenderResponse is the complete observable content of a response.
func RenderResponse(r *Req) string {
	if r.Err != nil {
		return fmt.Sprintf("ERR %d", r.Status())
	}
	if r.Res == nil {
		return "NONE"
	}
	var v any
	res := r.Res
	switch res.Kind {
	case t_api.ReadPromise:
		v = res.ReadPromise
	case t_api.SearchPromises:
		v = res.SearchPromises
	case t_api.CreatePromise:
		v = res.CreatePromise
	case t_api.CreatePromiseAndTask:
		v = []any{res.CreatePromiseAndTask, TaskAll(res.CreatePromiseAndTask.Task)}
	case t_api.CompletePromise:
		v = res.CompletePromise
	case t_api.CreateCallback:
		v = res.CreateCallback
	case t_api.CreateSubscription:
		v = res.CreateSubscription
	case t_api.ReadSchedule:
		v = res.ReadSchedule
	case t_api.SearchSchedules:
		v = res.SearchSchedules
	case t_api.CreateSchedule:
		v = res.CreateSchedule
	case t_api.DeleteSchedule:
		v = res.DeleteSchedule
	case t_api.AcquireLock:
		v = res.AcquireLock
	case t_api.ReleaseLock:
		v = res.ReleaseLock
	case t_api.HeartbeatLocks:
		v = res.HeartbeatLocks
	case t_api.ClaimTask:
		v = []any{res.ClaimTask, TaskAll(res.ClaimTask.Task)}
	case t_api.CompleteTask:
		v = []any{res.CompleteTask, TaskAll(res.CompleteTask.Task)}
	case t_api.HeartbeatTasks:
		v = res.HeartbeatTasks
	default:
		v = "?"
	}
	b, err := json.Marshal(v)
	if err != nil {
		return "MARSHAL-ERROR " + err.Error()
	}
	return string(b)
}
