package world

import "github.com/resonatehq/resonate/pkg/task"

// TaskAll renders the task fields that the JSON form hides.
func TaskAll(t *task.Task) any {
	if t == nil {
		return nil
	}
	pid := "<nil>"
	if t.ProcessId != nil {
		pid = *t.ProcessId
	}
	return []any{t.Id, t.Counter, t.Timeout, pid, int(t.State), t.RootPromiseId, string(t.Recv), t.Mesg, t.Attempt, t.Ttl, t.ExpiresAt, t.CreatedOn, t.CompletedOn}
}
