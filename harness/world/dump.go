package world

import (
	"database/sql"
	"fmt"
	"sort"
	"strings"
)

// Typed snapshots of the five tables, read straight from SQL so that nothing the
// store's Go code does can colour what the monitors see.

type PromiseRow struct {
	Id           string
	SortId       int64
	State        int
	ParamHeaders string
	ParamData    string
	ValueHeaders *string
	ValueData    *string
	Timeout      int64
	IkCreate     *string
	IkComplete   *string
	Tags         string
	CreatedOn    *int64
	CompletedOn  *int64
}

type CallbackRow struct {
	Id            string
	PromiseId     string
	RootPromiseId string
	Recv          string
	Mesg          string
	Timeout       int64
	CreatedOn     int64
}

type ScheduleRow struct {
	Id             string
	SortId         int64
	Description    string
	Cron           string
	Tags           string
	PromiseId      string
	PromiseTimeout int64
	ParamHeaders   string
	ParamData      string
	PromiseTags    string
	LastRunTime    *int64
	NextRunTime    int64
	Ik             *string
	CreatedOn      int64
}

type LockRow struct {
	ResourceId  string
	ExecutionId string
	ProcessId   string
	Ttl         int64
	ExpiresAt   int64
}

type TaskRow struct {
	Id            string
	SortId        int64
	ProcessId     *string
	State         int
	RootPromiseId string
	Recv          string
	Mesg          string
	Timeout       int64
	Counter       int
	Attempt       int
	Ttl           int
	ExpiresAt     int64
	CreatedOn     *int64
	CompletedOn   *int64
}

type Dump struct {
	Promises  map[string]*PromiseRow
	Callbacks map[string]*CallbackRow
	Schedules map[string]*ScheduleRow
	Locks     map[string]*LockRow
	Tasks     map[string]*TaskRow
	text      string
}

func ps(p *string) string {
	if p == nil {
		return "<nil>"
	}
	return fmt.Sprintf("%q", *p)
}

func pi(p *int64) string {
	if p == nil {
		return "<nil>"
	}
	return fmt.Sprintf("%d", *p)
}

func (r *PromiseRow) String() string {
	return fmt.Sprintf("P{%q #%d s=%d ph=%s pd=%q vh=%s vd=%s to=%d ikc=%s iku=%s tags=%s co=%s cmp=%s}",
		r.Id, r.SortId, r.State, r.ParamHeaders, r.ParamData, ps(r.ValueHeaders), ps(r.ValueData), r.Timeout, ps(r.IkCreate), ps(r.IkComplete), r.Tags, pi(r.CreatedOn), pi(r.CompletedOn))
}

func (r *CallbackRow) String() string {
	return fmt.Sprintf("CB{%q p=%q root=%q recv=%s mesg=%s to=%d co=%d}", r.Id, r.PromiseId, r.RootPromiseId, r.Recv, r.Mesg, r.Timeout, r.CreatedOn)
}

func (r *ScheduleRow) String() string {
	return fmt.Sprintf("S{%q #%d d=%q cron=%q tags=%s pid=%q pto=%d ph=%s pd=%q ptags=%s last=%s next=%d ik=%s co=%d}",
		r.Id, r.SortId, r.Description, r.Cron, r.Tags, r.PromiseId, r.PromiseTimeout, r.ParamHeaders, r.ParamData, r.PromiseTags, pi(r.LastRunTime), r.NextRunTime, ps(r.Ik), r.CreatedOn)
}

func (r *LockRow) String() string {
	return fmt.Sprintf("L{%q e=%q p=%q ttl=%d exp=%d}", r.ResourceId, r.ExecutionId, r.ProcessId, r.Ttl, r.ExpiresAt)
}

func (r *TaskRow) String() string {
	return fmt.Sprintf("T{%q #%d pid=%s s=%d root=%q recv=%s mesg=%s to=%d c=%d a=%d ttl=%d exp=%d co=%s cmp=%s}",
		r.Id, r.SortId, ps(r.ProcessId), r.State, r.RootPromiseId, r.Recv, r.Mesg, r.Timeout, r.Counter, r.Attempt, r.Ttl, r.ExpiresAt, pi(r.CreatedOn), pi(r.CompletedOn))
}

func sortedKeys[V any](m map[string]V) []string {
	ks := make([]string, 0, len(m))
	for k := range m {
		ks = append(ks, k)
	}
	sort.Strings(ks)
	return ks
}

// Text is the canonical rendering used for state keys and equality.
func (d *Dump) Text() string {
	if d.text != "" {
		return d.text
	}
	var b strings.Builder
	for _, k := range sortedKeys(d.Promises) {
		b.WriteString(d.Promises[k].String())
		b.WriteByte('\n')
	}
	for _, k := range sortedKeys(d.Callbacks) {
		b.WriteString(d.Callbacks[k].String())
		b.WriteByte('\n')
	}
	for _, k := range sortedKeys(d.Schedules) {
		b.WriteString(d.Schedules[k].String())
		b.WriteByte('\n')
	}
	for _, k := range sortedKeys(d.Locks) {
		b.WriteString(d.Locks[k].String())
		b.WriteByte('\n')
	}
	for _, k := range sortedKeys(d.Tasks) {
		b.WriteString(d.Tasks[k].String())
		b.WriteByte('\n')
	}
	d.text = b.String()
	if d.text == "" {
		d.text = "\n"
	}
	return d.text
}

func nstr(v sql.NullString) *string {
	if !v.Valid {
		return nil
	}
	s := v.String
	return &s
}

func nint(v sql.NullInt64) *int64 {
	if !v.Valid {
		return nil
	}
	i := v.Int64
	return &i
}

func b2s(b []byte) string { return string(b) }

func nb2s(b []byte) *string {
	if b == nil {
		return nil
	}
	s := string(b)
	return &s
}

var dumpQueries = []string{
	`SELECT id, sort_id, state, param_headers, param_data, value_headers, value_data, timeout, idempotency_key_for_create, idempotency_key_for_complete, tags, created_on, completed_on FROM promises`,
	`SELECT id, promise_id, root_promise_id, recv, mesg, timeout, created_on FROM callbacks`,
	`SELECT id, sort_id, description, cron, tags, promise_id, promise_timeout, promise_param_headers, promise_param_data, promise_tags, last_run_time, next_run_time, idempotency_key, created_on FROM schedules`,
	`SELECT resource_id, execution_id, process_id, ttl, expires_at FROM locks`,
	`SELECT id, sort_id, process_id, state, root_promise_id, recv, mesg, timeout, counter, attempt, ttl, expires_at, created_on, completed_on FROM tasks`,
}

// DumpDB reads all five tables through ad-hoc queries.
func DumpDB(db *sql.DB) (*Dump, error) {
	var sts []*sql.Stmt
	defer func() {
		for _, s := range sts {
			_ = s.Close()
		}
	}()
	for _, q := range dumpQueries {
		s, err := db.Prepare(q)
		if err != nil {
			return nil, err
		}
		sts = append(sts, s)
	}
	return TakeDump(sts)
}

// TakeDump reads all five tables.
func TakeDump(st []*sql.Stmt) (*Dump, error) {
	d := &Dump{
		Promises:  map[string]*PromiseRow{},
		Callbacks: map[string]*CallbackRow{},
		Schedules: map[string]*ScheduleRow{},
		Locks:     map[string]*LockRow{},
		Tasks:     map[string]*TaskRow{},
	}

	rows, err := st[0].Query()
	if err != nil {
		return nil, err
	}
	for rows.Next() {
		r := &PromiseRow{}
		var ph, pd, vh, vd, tags []byte
		var ikc, iku sql.NullString
		var co, cmp sql.NullInt64
		var id sql.NullString
		if err := rows.Scan(&id, &r.SortId, &r.State, &ph, &pd, &vh, &vd, &r.Timeout, &ikc, &iku, &tags, &co, &cmp); err != nil {
			rows.Close()
			return nil, err
		}
		r.Id = id.String
		r.ParamHeaders, r.ParamData, r.ValueHeaders, r.ValueData, r.Tags = b2s(ph), b2s(pd), nb2s(vh), nb2s(vd), b2s(tags)
		r.IkCreate, r.IkComplete, r.CreatedOn, r.CompletedOn = nstr(ikc), nstr(iku), nint(co), nint(cmp)
		d.Promises[r.Id] = r
	}
	rows.Close()

	rows, err = st[1].Query()
	if err != nil {
		return nil, err
	}
	for rows.Next() {
		r := &CallbackRow{}
		var recv, mesg []byte
		if err := rows.Scan(&r.Id, &r.PromiseId, &r.RootPromiseId, &recv, &mesg, &r.Timeout, &r.CreatedOn); err != nil {
			rows.Close()
			return nil, err
		}
		r.Recv, r.Mesg = b2s(recv), b2s(mesg)
		d.Callbacks[r.Id] = r
	}
	rows.Close()

	rows, err = st[2].Query()
	if err != nil {
		return nil, err
	}
	for rows.Next() {
		r := &ScheduleRow{}
		var tags, ph, pd, pt []byte
		var last sql.NullInt64
		var ik, desc sql.NullString
		if err := rows.Scan(&r.Id, &r.SortId, &desc, &r.Cron, &tags, &r.PromiseId, &r.PromiseTimeout, &ph, &pd, &pt, &last, &r.NextRunTime, &ik, &r.CreatedOn); err != nil {
			rows.Close()
			return nil, err
		}
		r.Description = desc.String
		r.Tags, r.ParamHeaders, r.ParamData, r.PromiseTags = b2s(tags), b2s(ph), b2s(pd), b2s(pt)
		r.LastRunTime, r.Ik = nint(last), nstr(ik)
		d.Schedules[r.Id] = r
	}
	rows.Close()

	rows, err = st[3].Query()
	if err != nil {
		return nil, err
	}
	for rows.Next() {
		r := &LockRow{}
		if err := rows.Scan(&r.ResourceId, &r.ExecutionId, &r.ProcessId, &r.Ttl, &r.ExpiresAt); err != nil {
			rows.Close()
			return nil, err
		}
		d.Locks[r.ResourceId] = r
	}
	rows.Close()

	rows, err = st[4].Query()
	if err != nil {
		return nil, err
	}
	for rows.Next() {
		r := &TaskRow{}
		var pid sql.NullString
		var recv, mesg []byte
		var co, cmp sql.NullInt64
		if err := rows.Scan(&r.Id, &r.SortId, &pid, &r.State, &r.RootPromiseId, &recv, &mesg, &r.Timeout, &r.Counter, &r.Attempt, &r.Ttl, &r.ExpiresAt, &co, &cmp); err != nil {
			rows.Close()
			return nil, err
		}
		r.ProcessId, r.Recv, r.Mesg, r.CreatedOn, r.CompletedOn = nstr(pid), b2s(recv), b2s(mesg), nint(co), nint(cmp)
		d.Tasks[r.Id] = r
	}
	rows.Close()
	return d, nil
}
