package props

import (
	"bytes"
	"encoding/json"
	"fmt"
	"sort"
	"strings"

	"github.com/resonatehq/resonate/internal/kernel/t_api"
	"github.com/resonatehq/resonate/internal/verif/runner"
	"github.com/resonatehq/resonate/internal/verif/world"
	"github.com/resonatehq/resonate/pkg/promise"
)

// ---------------------------------------------------------------------------
// C08 — tasks are born and finished with their promise; dispatch discipline
// ---------------------------------------------------------------------------

// RoutesRef is the reference reading of "a promise whose tags route it": the
// default source looks at tag resonate:invoke; a plain (non-JSON) string routes as a
// logical name, a JSON receiver object {"type": non-empty, "data": ...} routes as a
// physical receiver, any other JSON does not route.
func RoutesRef(tags map[string]string, key string) bool {
	v, ok := tags[key]
	if !ok {
		return false
	}
	if !json.Valid([]byte(v)) {
		return true
	}
	var m map[string]json.RawMessage
	dec := json.NewDecoder(bytes.NewReader([]byte(v)))
	if err := dec.Decode(&m); err != nil || m == nil {
		return false
	}
	for k := range m {
		if k != "type" && k != "data" {
			return false
		}
	}
	var typ string
	if t, ok := m["type"]; !ok || json.Unmarshal(t, &typ) != nil || typ == "" {
		return false
	}
	return true
}

type C08Monitor struct {
	world.BaseMonitor
	RouteKey  string
	accepted  map[string]bool // "(task/counter)" handed off successfully and not yet recorded
	attempted map[string]bool // hand-off attempted (any outcome)
	failed    map[string]int  // "(task/counter)" -> attempt value the row must get after a failed hand-off
	refusedPT map[string]bool // request ids of create-with-task requests
	inserted  map[string]bool // promise ids inserted by owner
	read      map[string]int  // "owner|task" -> counter the dispatch cycle read
}

func (m *C08Monitor) OnStart(w *world.World) {
	m.accepted, m.attempted, m.failed = map[string]bool{}, map[string]bool{}, map[string]int{}
	m.inserted = map[string]bool{}
	m.read = map[string]int{}
	if m.RouteKey == "" {
		m.RouteKey = "resonate:invoke"
	}
}

func sortedSet(m map[string]bool) []string {
	ks := []string{}
	for k, v := range m {
		if v {
			ks = append(ks, k)
		}
	}
	sort.Strings(ks)
	return ks
}

func (m *C08Monitor) Key() string {
	return fmt.Sprint(sortedSet(m.accepted), sortedSet(m.attempted), m.failed, sortedSet(m.inserted), m.read)
}

func tk(id string, counter int) string { return fmt.Sprintf("%s/%d", id, counter) }

func (m *C08Monitor) OnCommit(w *world.World, e *world.CommitEvent) {
	if m.accepted == nil {
		m.OnStart(w)
	}
	if e.Err != nil {
		if e.Before.Text() != e.After.Text() {
			w.Violate("C08:failed-tx-changed-db", "a failed transaction changed the database")
		}
		return
	}
	CheckTaskTransitions(w, e, "C08")
	// promise born <=> invocation task born, in the same commit
	for id, p := range e.After.Promises {
		if _, existed := e.Before.Promises[id]; existed {
			continue
		}
		for i, sub := range e.Subs {
			for _, c := range sub.Store.Transaction.Commands {
				if (c.CreatePromise != nil && c.CreatePromise.Id == id) || (c.CreatePromiseAndTask != nil && c.CreatePromiseAndTask.PromiseCommand.Id == id) {
					m.inserted[e.Owners[i]+"|"+id] = true
				}
			}
		}
		_, hasTask := e.After.Tasks["__invoke:"+id]
		_, hadTask := e.Before.Tasks["__invoke:"+id]
		routes := RoutesRef(jsonMap(p.Tags), m.RouteKey)
		if routes && (!hasTask || hadTask) {
			w.Violate("C08:routed-promise-without-task", "promise %q is routed (tags %s) but was created without its invocation task (commit %v)", id, p.Tags, e.Owners)
		}
		if !routes && hasTask && !hadTask {
			w.Violate("C08:unrouted-promise-with-task", "promise %q is not routed (tags %s) but got an invocation task", id, p.Tags)
		}
		if t := e.After.Tasks["__invoke:"+id]; t != nil && !hadTask {
			if t.RootPromiseId != id || t.Timeout != p.Timeout || t.Counter != 1 || !(t.State == 1 || t.State == 4) {
				w.Violate("C08:invoke-task-malformed", "invocation task %s does not belong to promise %s", t, p)
			}
		}
	}
	for id, t := range e.After.Tasks {
		if _, existed := e.Before.Tasks[id]; existed || !strings.HasPrefix(id, "__invoke:") {
			continue
		}
		pid := strings.TrimPrefix(id, "__invoke:")
		if _, existed := e.Before.Promises[pid]; existed {
			w.Violate("C08:task-without-promise-birth", "invocation task %s created for an already existing promise", t)
		}
		if _, ok := e.After.Promises[pid]; !ok {
			w.Violate("C08:task-without-promise", "invocation task %s created without its promise", t)
		}
	}
	// promise completed => all its outstanding tasks finished in the same commit
	for pid, b := range e.Before.Promises {
		a := e.After.Promises[pid]
		if a == nil || b.State != 1 || a.State == 1 {
			continue
		}
		for id, tb := range e.Before.Tasks {
			if tb.RootPromiseId != pid || finishedTask(tb.State) {
				continue
			}
			if ta := e.After.Tasks[id]; ta == nil || !finishedTask(ta.State) {
				w.Violate("C08:task-outlives-promise", "promise %q completed (commit %v) but its task %s stays active", pid, e.Owners, ta)
			}
		}
	}
	// dispatch discipline on what a cycle selects
	for i, sub := range e.Subs {
		for j, c := range sub.Store.Transaction.Commands {
			if c.ReadEnquableTasks == nil {
				continue
			}
			res := e.Results[i][j].ReadEnqueueableTasks
			roots := map[string]bool{}
			if int(res.RowsReturned) != len(res.Records) || len(res.Records) > c.ReadEnquableTasks.Limit {
				w.Violate("C08:dispatch-batch-size", "dispatch cycle selected %d tasks with limit %d", len(res.Records), c.ReadEnquableTasks.Limit)
			}
			for _, rec := range res.Records {
				row := e.Before.Tasks[rec.Id]
				if row == nil && len(e.Subs) > 1 {
					row = e.After.Tasks[rec.Id] // created earlier in the same batch
				}
				if row != nil && (rec.Counter != row.Counter || string(rec.Recv) != row.Recv || string(rec.Mesg) != row.Mesg || rec.RootPromiseId != row.RootPromiseId || rec.Attempt != row.Attempt || rec.Timeout != row.Timeout) {
					w.Violate("C08:dispatch-read-differs-from-row", "dispatch cycle read %v for row %s", rec, row)
				}
				if row != nil {
					m.read[e.Owners[i]+"|"+rec.Id] = row.Counter
				}
				if row == nil || row.State != 1 || int(rec.State) != 1 {
					w.Violate("C08:dispatch-selected-non-init", "dispatch cycle selected task %q which is not in its initial state (%v)", rec.Id, row)
					continue
				}
				if roots[row.RootPromiseId] {
					w.Violate("C08:dispatch-two-per-root", "dispatch cycle selected two tasks of root %q", row.RootPromiseId)
				}
				roots[row.RootPromiseId] = true
				for _, sib := range e.Before.Tasks {
					if len(e.Subs) == 1 && sib.RootPromiseId == row.RootPromiseId && (sib.State == 2 || sib.State == 4) {
						w.Violate("C08:dispatch-with-active-sibling", "dispatch cycle selected %q although sibling %s is enqueued/claimed", rec.Id, sib)
					}
				}
			}
		}
	}
	// recording of hand-offs
	if len(e.Subs) != 1 {
		return
	}
	for id, a := range e.After.Tasks {
		b := e.Before.Tasks[id]
		if b == nil {
			continue
		}
		k := tk(id, b.Counter)
		if b.State != 2 && a.State == 2 {
			if !m.accepted[k] {
				w.Violate("C08:enqueued-without-handoff", "task %q was marked enqueued without a successful hand-off of (id, counter %d) (commit %v)", id, b.Counter, e.Owners)
			}
			delete(m.accepted, k)
		}
		if want, ok := m.failed[k]; ok {
			for _, c := range e.Subs[0].Store.Transaction.Commands {
				if u := c.UpdateTask; u != nil && u.Id == id && strings.HasPrefix(e.Owners[0], "EnqueueTasks:") {
					if a.State == 1 && b.State == 1 && a.Attempt != want {
						w.Violate("C08:failed-handoff-not-counted", "after a failed hand-off task %q must stay init with attempt %d, got %s", id, want, a)
					}
					delete(m.failed, k)
				}
			}
		}
		isNotify := strings.Contains(b.Mesg, `"type":"notify"`)
		if isNotify && b.State == 1 && m.attempted[k] && strings.HasPrefix(e.Owners[0], "EnqueueTasks:") {
			for _, c := range e.Subs[0].Store.Transaction.Commands {
				if u := c.UpdateTask; u != nil && u.Id == id && a.State != 8 {
					w.Violate("C08:notify-not-finished-after-attempt", "notification task %q was handed off (attempt recorded) but the cycle left it in state %d attempt %d instead of finishing it", id, a.State, a.Attempt)
				}
			}
		}
		if isNotify && b.State == 1 && a.State == 8 {
			byRoot := false
			for _, c := range e.Subs[0].Store.Transaction.Commands {
				if c.CompleteTasks != nil && c.CompleteTasks.RootPromiseId == b.RootPromiseId {
					byRoot = true
				}
			}
			if !m.attempted[k] {
				sig := "C08:notify-finished-without-handoff"
				if byRoot {
					sig = "C08:notify-finished-without-handoff:by-CompleteTasks"
				}
				w.Violate(sig, "notification task %q was finished by %v without any hand-off attempt", id, e.Owners)
			}
		}
	}
}

func (m *C08Monitor) OnSend(w *world.World, e *world.SendEvent) {
	if m.accepted == nil {
		m.OnStart(w)
	}
	t := e.Sub.Task
	k := tk(t.Id, t.Counter)
	m.attempted[k] = true
	if e.Err == nil && e.Success {
		m.accepted[k] = true
	}
	row := e.DB.Tasks[t.Id]
	if row != nil && !(e.Err == nil && e.Success) && !strings.Contains(row.Mesg, `"type":"notify"`) {
		m.failed[k] = row.Attempt + 1
	}
	if row == nil {
		w.Violate("C08:dispatch-of-unknown-task", "message for task %q which does not exist", t.Id)
		return
	}
	if !e.Reached {
		return
	}
	// message oracle
	var body map[string]json.RawMessage
	if err := json.Unmarshal(e.Msg.Body, &body); err != nil {
		w.Violate("C08:message-not-json", "dispatched body is not JSON: %s", e.Msg.Body)
		return
	}
	var typ string
	_ = json.Unmarshal(body["type"], &typ)
	var mesg struct{ Type, Root, Leaf string }
	_ = json.Unmarshal([]byte(row.Mesg), &mesg)
	if typ != mesg.Type || string(e.Msg.Type) != mesg.Type {
		w.Violate("C08:message-type", "message type %q/%q for task with mesg %s", typ, e.Msg.Type, row.Mesg)
	}
	if mesg.Type == "notify" {
		var p promise.Promise
		if err := json.Unmarshal(body["promise"], &p); err != nil {
			w.Violate("C08:notify-body", "notification body has no promise: %s", e.Msg.Body)
			return
		}
		if p.Id != mesg.Root {
			w.Violate("C08:notify-wrong-promise", "notification for %q carries promise %q", mesg.Root, p.Id)
		}
		if p.State == promise.Pending {
			w.Violate("C08:notify-pending-promise", "notification carries a pending promise: %s", e.Msg.Body)
		}
		pp := p
		ObservePromise(w, "C08", "notification-body", &pp)
		return
	}
	var tb struct {
		Id      string `json:"id"`
		Counter int    `json:"counter"`
	}
	// the message must name the (id, counter) the dispatch cycle read from the row: a
	// claim with them succeeds unless the task was meanwhile re-dispatched, claimed or finished
	readCounter, wasRead := m.read[e.Owner+"|"+t.Id]
	if err := json.Unmarshal(body["task"], &tb); err != nil || tb.Id != t.Id || !wasRead || tb.Counter != readCounter {
		w.Violate("C08:message-task", "message names task %q counter %d, the cycle read counter %d (read=%v) of row %s", tb.Id, tb.Counter, readCounter, wasRead, row)
	}
	if (row.State == 1 || row.State == 2) && row.Counter == readCounter && tb.Counter != row.Counter {
		w.Violate("C08:message-unclaimable", "message for claimable task %s carries counter %d", row, tb.Counter)
	}
	var href map[string]string
	_ = json.Unmarshal(body["href"], &href)
	url := w.Cfg.System.Url
	for name, want := range map[string]string{
		"claim":     fmt.Sprintf("%s/tasks/claim/%s/%d", url, row.Id, readCounter),
		"complete":  fmt.Sprintf("%s/tasks/complete/%s/%d", url, row.Id, readCounter),
		"heartbeat": fmt.Sprintf("%s/tasks/heartbeat/%s/%d", url, row.Id, readCounter),
	} {
		if href[name] != want {
			w.Violate("C08:message-href:"+name, "message link %s=%q, want %q", name, href[name], want)
		}
	}
}

func (m *C08Monitor) OnResponse(w *world.World, r *world.Req) {
	if m.accepted == nil {
		m.OnStart(w)
	}
	if r.Req.Kind != t_api.CreatePromiseAndTask {
		return
	}
	q := r.Req.CreatePromiseAndTask
	routes := RoutesRef(jsonMap2(q.Promise.Tags), m.RouteKey)
	if !routes {
		if r.Err == nil && r.Status() == 20100 {
			w.Violate("C08:create-with-task-unrouted-accepted", "create-with-task for unrouted promise %q answered 201", q.Promise.Id)
		}
		if m.inserted[r.Id+"|"+q.Promise.Id] {
			w.Violate("C08:create-with-task-half-done", "create-with-task for unrouted promise %q was refused/failed but the promise was created", q.Promise.Id)
		}
	} else if r.Err == nil && r.Status() == 20100 {
		t := r.Res.CreatePromiseAndTask.Task
		row := w.Dump().Tasks["__invoke:"+q.Promise.Id]
		if t == nil || row == nil || t.Id != row.Id || t.Counter != 1 {
			w.Violate("C08:create-with-task-body", "create-with-task answered 201 with task %v, row %v", t, row)
		}
	}
}

func C08Scenarios(tier string) []*Scenario {
	var out []*Scenario
	mon := func() []world.Monitor { return []world.Monitor{&C08Monitor{}} }
	creates := []ReqF{
		CreateP("p", "", false, 100, routedTags, "x"),
		CreateP("p", "", false, 100, nil, "x"),
		CreateP("p", "", false, 100, map[string]string{"resonate:invoke": recvPoll}, "x"),
		CreateP("p", "", false, 100, map[string]string{"resonate:invoke": `{"x":1}`}, "x"),
		CreatePT("p", "", false, 100, routedTags, "w1", 5),
		CreatePT("p", "", false, 100, nil, "w1", 5),
		CreatePT("p", "", false, 100, map[string]string{"resonate:invoke": `{"type":""}`}, "w1", 5),
	}
	// births: two creates racing, router and store faults
	for i := 0; i < len(creates); i++ {
		for j := i; j < len(creates); j++ {
			out = append(out, &Scenario{
				Name: fmt.Sprintf("C08/birth/%d|%d %s|%s", i, j, creates[i].Label, creates[j].Label), Cfg: taskCfg(), Clock0: 0,
				Clients: [][]ReqF{{creates[i]}, {creates[j]}}, Faults: 1, Batches: true,
				Sweeps: map[string]int{"EnqueueTasks": 1}, SendAlt: 1,
				Epilogue: promiseEpilogue("p"), Monitors: mon, Bound: -1,
			})
		}
	}
	// completion finishes the tasks; dispatch cycles; claims
	setups := []setupF{
		{"routed", func(w *world.World) { w.Do(9, 0, CreateP("p", "", false, 100, routedTags, "x").F()) }},
		{"routed+regs", func(w *world.World) {
			w.Do(9, 0, CreateP("r", "", false, 100, routedTags, "x").F())
			w.Do(9, 1, CreateP("p", "", false, 100, routedTags, "x").F())
			w.Do(9, 2, Callback("r", "p", 100, `"poll://g/w"`).F())
			w.Do(9, 3, Subscribe("s1", "p", 100, `"poll://g/w"`).F())
		}},
		{"completed+tasks", func(w *world.World) {
			w.Do(9, 0, CreateP("r", "", false, 100, routedTags, "x").F())
			w.Do(9, 1, CreateP("p", "", false, 100, routedTags, "x").F())
			w.Do(9, 2, Callback("r", "p", 100, `"poll://g/w"`).F())
			w.Do(9, 3, Subscribe("s1", "p", 100, `"poll://g/w"`).F())
			w.Do(9, 4, Subscribe("s2", "p", 100, `"nowhere"`).F())
			w.Do(9, 5, CompleteP("p", promise.Resolved, "", false, "v").F())
		}},
	}
	acts := []ReqF{
		CompleteP("p", promise.Resolved, "", false, "v"),
		ClaimT("__invoke:p", 1, "w1", 5),
		ClaimT("__resume:r:p", 1, "w1", 5),
		ClaimT("__invoke:r", 1, "w2", 5),
		CompleteT("__invoke:p", 1),
		CompleteP("r", promise.Rejected, "", false, "v"),
	}
	for _, su := range setups {
		for _, tbs := range []int{1, 2, 100} {
			if tbs == 2 && tier != "thorough" {
				continue
			}
			cfg := taskCfg()
			cfg.System.TaskBatchSize = tbs
			for i := 0; i < len(acts); i++ {
				for j := i + 1; j < len(acts); j++ {
					usesR := func(k int) bool { return k == 2 || k == 3 || k == 5 }
					if su.name == "routed" && (usesR(i) || usesR(j)) {
						continue // no promise r in this setup
					}
					enq, tmo, alt, clk := 2, 1, 1, []int64{5}
					if tier != "thorough" {
						clk = nil
						switch su.name {
						case "routed":
							tmo = 0
							if tbs != 100 {
								continue
							}
						case "routed+regs":
							enq, tmo, alt = 1, 0, 0
							if tbs != 100 {
								continue
							}
						case "completed+tasks":
							tmo = 0
							if !(usesR(i) && usesR(j)) {
								continue // p is already completed: only the tasks of r matter
							}
						}
					}
					if tier != "thorough" && su.name == "routed" {
						// second variant: one dispatch cycle racing with the lease sweep over the lease end
						out = append(out, &Scenario{
							Name: fmt.Sprintf("C08/%s/lease/%s|%s", su.name, acts[i].Label, acts[j].Label), Cfg: cfg, Clock0: 0, Setup: su.f,
							Clients: [][]ReqF{{acts[i]}, {acts[j]}}, Sweeps: map[string]int{"EnqueueTasks": 1, "TimeoutTasks": 1},
							ClockMenu: []int64{5}, Monitors: mon, Bound: -1,
						})
					}
					out = append(out, &Scenario{
						Name: fmt.Sprintf("C08/%s/tbs=%d/%s|%s", su.name, tbs, acts[i].Label, acts[j].Label), Cfg: cfg, Clock0: 0, Setup: su.f,
						Clients: [][]ReqF{{acts[i]}, {acts[j]}}, Sweeps: map[string]int{"EnqueueTasks": enq, "TimeoutTasks": tmo},
						ClockMenu: clk, SendAlt: alt, Faults: tierInt(tier, 0, 1),
						Monitors: mon, Bound: -1,
					})
				}
			}
		}
	}
	return out
}

func init() {
	Registry["C08"] = func() *runner.Spec {
		return &runner.Spec{
			Property: "C08", Engine: "kexplore", Level: "model_checking",
			Jobs:   scenarioJobs("C08", C08Scenarios),
			Rule:   "every interleaving of (a) two racing creations (routed string / routed JSON receiver / unrouted / malformed tag, with and without task) with one router or store failure and both orders in one SQL batch, (b) promise completion, claims and task completion with up to two dispatch cycles (task batch size 1, 2, 100; every hand-off outcome) and the lease sweep; the real SenderWorker builds the message that the oracle parses; distinct = distinct (responses, final database) vectors",
			Assume: engineAAssume, QuickS: 150, ThoroughS: 1500,
		}
	}
}
