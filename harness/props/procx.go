package props

import (
	"bytes"
	"encoding/json"
	"fmt"
	"io"
	"net"
	"net/http"
	"os"
	"os/exec"
	"path/filepath"
	"syscall"
	"time"

	"github.com/resonatehq/resonate/internal/verif/runner"
)

// ProcJob (engine E): the real `resonate serve` binary built from the working tree.
// start -> HTTP workload -> SIGTERM / SIGKILL -> restart on the same SQLite file with
// the default configuration otherwise -> read everything back. Binds the in-process
// crash/stop model to the real process (serve.go wiring, Stop order, Reset default).
type ProcJob struct{ Tier string }

func (j *ProcJob) Name() string { return "C06/procx/real-binary-kill-and-restart" }

var realBin = runner.Home() + "/bin/resonate-real"

func freePort() int {
	l, err := net.Listen("tcp", "127.0.0.1:0")
	if err != nil {
		return 0
	}
	defer l.Close()
	return l.Addr().(*net.TCPAddr).Port
}

type proc struct {
	cmd  *exec.Cmd
	base string
	out  *bytes.Buffer
}

func startServer(dir string) (*proc, error) {
	hp, gp, mp, pp := freePort(), freePort(), freePort(), freePort()
	out := &bytes.Buffer{}
	cmd := exec.Command(realBin, "serve",
		"--aio-store-sqlite-path", filepath.Join(dir, "resonate.db"),
		"--api-http-addr", fmt.Sprintf("127.0.0.1:%d", hp),
		"--api-grpc-addr", fmt.Sprintf("127.0.0.1:%d", gp),
		"--metrics-addr", fmt.Sprintf("127.0.0.1:%d", mp),
		"--aio-sender-plugin-poll-addr", fmt.Sprintf("127.0.0.1:%d", pp),
	)
	cmd.Dir = dir
	cmd.Stdout, cmd.Stderr = out, out
	if err := cmd.Start(); err != nil {
		return nil, err
	}
	p := &proc{cmd: cmd, base: fmt.Sprintf("http://127.0.0.1:%d", hp), out: out}
	// liveness wait only (generous cap, no wall-clock oracle)
	for i := 0; i < 600; i++ {
		resp, err := http.Get(p.base + "/promises/none")
		if err == nil {
			resp.Body.Close()
			return p, nil
		}
		time.Sleep(50 * time.Millisecond)
	}
	_ = cmd.Process.Kill()
	return nil, fmt.Errorf("server did not come up: %s", out.String())
}

func (p *proc) do(method, path string, body any, headers map[string]string) (int, map[string]any) {
	var rd io.Reader
	if body != nil {
		b, _ := json.Marshal(body)
		rd = bytes.NewReader(b)
	}
	req, _ := http.NewRequest(method, p.base+path, rd)
	req.Header.Set("Content-Type", "application/json")
	for k, v := range headers {
		req.Header.Set(k, v)
	}
	resp, err := (&http.Client{Timeout: 20 * time.Second}).Do(req)
	if err != nil {
		return -1, nil
	}
	defer resp.Body.Close()
	b, _ := io.ReadAll(resp.Body)
	var m map[string]any
	_ = json.Unmarshal(b, &m)
	return resp.StatusCode, m
}

func (p *proc) stop(sig syscall.Signal) {
	_ = p.cmd.Process.Signal(sig)
	done := make(chan struct{})
	go func() { _ = p.cmd.Wait(); close(done) }()
	select {
	case <-done:
	case <-time.After(30 * time.Second):
		_ = p.cmd.Process.Kill()
		<-done
	}
}

func (j *ProcJob) Run(deadline time.Time) *runner.JobResult {
	res := &runner.JobResult{Name: j.Name(), Counters: map[string]int64{}}
	if _, err := os.Stat(realBin); err != nil {
		res.HarnessErr = "real binary not built: " + err.Error()
		return res
	}
	viol := func(sig, format string, a ...any) {
		res.Violations = append(res.Violations, runner.Violation{Sig: sig, Msg: fmt.Sprintf(format, a...), Job: j.Name(), Replay: map[string]any{"procx": sig}})
	}
	far := time.Now().Add(24 * time.Hour).UnixMilli()
	for _, how := range []struct {
		name string
		sig  syscall.Signal
	}{{"SIGTERM", syscall.SIGTERM}, {"SIGKILL", syscall.SIGKILL}} {
		for killAfter := 1; killAfter <= 4; killAfter++ {
			dir, err := os.MkdirTemp(runner.Home()+"/.ov", "procx")
			if err != nil {
				res.HarnessErr = err.Error()
				return res
			}
			func() {
				defer os.RemoveAll(dir)
				p, err := startServer(dir)
				if err != nil {
					res.Capped = true
					res.Notes = append(res.Notes, "server start failed (not a violation): "+err.Error())
					return
				}
				acked := map[string]string{}
				steps := []func(){
					func() {
						if st, _ := p.do("POST", "/promises", map[string]any{"id": "p1", "timeout": far, "param": map[string]any{"data": "eA=="}, "tags": map[string]string{"resonate:invoke": "poll://g/w", "k": "v"}}, map[string]string{"idempotency-key": "ik1"}); st == 201 {
							acked["p1"] = "PENDING"
						}
					},
					func() {
						if st, _ := p.do("POST", "/schedules", map[string]any{"id": "s1", "cron": "0 0 1 1 *", "promiseId": "s1.{{.timestamp}}", "promiseTimeout": 1000}, nil); st == 201 {
							acked["schedule:s1"] = "exists"
						}
					},
					func() {
						if st, _ := p.do("POST", "/promises", map[string]any{"id": "p2", "timeout": far}, nil); st == 201 {
							acked["p2"] = "PENDING"
						}
						if st, _ := p.do("PATCH", "/promises/p2", map[string]any{"state": "RESOLVED", "value": map[string]any{"data": "dg=="}}, nil); st == 201 {
							acked["p2"] = "RESOLVED"
						}
					},
					func() {
						if st, _ := p.do("POST", "/locks/acquire", map[string]any{"resourceId": "r1", "executionId": "e1", "processId": "p", "ttl": 3600000}, nil); st == 201 {
							acked["lock:r1"] = "e1"
						}
					},
				}
				for i := 0; i < killAfter && i < len(steps); i++ {
					steps[i]()
				}
				p.stop(how.sig)
				res.Executions++
				p2, err := startServer(dir)
				if err != nil {
					viol("C06:procx:restart-failed:"+how.name, "the server did not restart on its own database after %s: %v", how.name, err)
					return
				}
				defer p2.stop(syscall.SIGKILL)
				for k, v := range acked {
					switch {
					case k == "p1" || k == "p2":
						st, body := p2.do("GET", "/promises/"+k, nil, nil)
						if st != 200 || body["state"] != v {
							viol("C06:procx:acknowledged-promise-lost:"+how.name, "after %s and restart promise %s (acknowledged %s) reads %d %v", how.name, k, v, st, body)
						}
					case k == "schedule:s1":
						if st, _ := p2.do("GET", "/schedules/s1", nil, nil); st != 200 {
							viol("C06:procx:acknowledged-schedule-lost:"+how.name, "after %s and restart schedule s1 reads %d", how.name, st)
						}
					case k == "lock:r1":
						if st, _ := p2.do("POST", "/locks/acquire", map[string]any{"resourceId": "r1", "executionId": "e2", "processId": "p", "ttl": 1}, nil); st != 403 {
							viol("C06:procx:acknowledged-lock-lost:"+how.name, "after %s and restart another execution could acquire lock r1 (status %d)", how.name, st)
						}
					}
				}
				if _, ok := acked["p1"]; ok {
					// the routed promise must have come back with its task: a claim finds it
					st, _ := p2.do("POST", "/tasks/claim", map[string]any{"id": "__invoke:p1", "counter": 1, "processId": "w", "ttl": 1000}, nil)
					if st != 201 && st != 403 {
						viol("C06:procx:task-of-routed-promise-lost:"+how.name, "after %s and restart the invocation task of acknowledged promise p1 cannot be claimed: status %d", how.name, st)
					}
				}
				res.Outcomes = append(res.Outcomes, fmt.Sprintf("%s-after-%d:%d", how.name, killAfter, len(acked)))
			}()
		}
	}
	res.Samples = []any{map[string]any{"procx": "start, 1..4 HTTP mutations, SIGTERM|SIGKILL, restart on the same sqlite file, read back"}}
	res.States, res.Transitions = res.Executions, res.Executions
	return res
}
