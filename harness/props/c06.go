package props

import (
	"fmt"
	"strings"

	"github.com/resonatehq/resonate/internal/kernel/t_api"
	"github.com/resonatehq/resonate/internal/verif/runner"
	"github.com/resonatehq/resonate/internal/verif/world"
	"github.com/resonatehq/resonate/pkg/promise"
)

// ---------------------------------------------------------------------------
// C06 — acknowledged writes are durable; requests are all-or-nothing across crashes
// ---------------------------------------------------------------------------

type C06Monitor struct {
	world.BaseMonitor
	effect  map[string]bool   // request id -> one of its transactions really committed a change
	acked   map[string]string // durable facts acknowledged to clients: key -> description
	preDump string
}

func (m *C06Monitor) OnStart(w *world.World) {
	m.effect, m.acked = map[string]bool{}, map[string]string{}
}

func (m *C06Monitor) Key() string {
	ks := []string{}
	for k, v := range m.acked {
		ks = append(ks, k+"="+v)
	}
	return fmt.Sprint(sortedSet(m.effect), sortStrings(ks))
}

func sortStrings(s []string) []string {
	out := append([]string{}, s...)
	for i := range out {
		for j := i + 1; j < len(out); j++ {
			if out[j] < out[i] {
				out[i], out[j] = out[j], out[i]
			}
		}
	}
	return out
}

func (m *C06Monitor) OnCommit(w *world.World, e *world.CommitEvent) {
	if m.effect == nil {
		m.OnStart(w)
	}
	if e.Err != nil {
		if e.Before.Text() != e.After.Text() {
			w.Violate("C06:failed-transaction-left-effects", "a transaction that failed (%v) changed the database", e.Err)
		}
		return
	}
	if e.Before.Text() != e.After.Text() {
		for _, o := range e.Owners {
			m.effect[o] = true // (attribution inside a batch is conservative: any owner of the batch)
		}
	}
	crossTable(w, e.After, "C06", fmt.Sprintf("after commit %v", e.Owners))
}

// crossTable: the invariants that an all-or-nothing request can never break.
func crossTable(w *world.World, d *world.Dump, prop, when string) {
	for id, cb := range d.Callbacks {
		if p := d.Promises[cb.PromiseId]; p == nil || p.State != 1 {
			w.Violate(prop+":registration-outlives-promise", "%s: registration %q refers to a promise that is not pending", when, id)
		}
	}
	for id, p := range d.Promises {
		if RoutesRef(jsonMap(p.Tags), "resonate:invoke") {
			if _, ok := d.Tasks["__invoke:"+id]; !ok {
				w.Violate(prop+":routed-promise-without-task", "%s: routed promise %q has no invocation task", when, id)
			}
		}
		if p.State != 1 {
			for tid, t := range d.Tasks {
				if t.RootPromiseId == id && !finishedTask(t.State) && !strings.HasPrefix(tid, "__notify:") {
					w.Violate(prop+":completed-promise-with-active-task", "%s: promise %q is completed but its task %s is still active", when, id, t)
				}
			}
		}
	}
	for id, s := range d.Schedules {
		if s.LastRunTime != nil {
			pid := expandRef(s.PromiseId, s.Id, *s.LastRunTime)
			if _, ok := d.Promises[pid]; !ok {
				w.Violate(prop+":schedule-advanced-without-promise", "%s: schedule %q has run occurrence %d but promise %q does not exist", when, id, *s.LastRunTime, pid)
			}
		}
	}
}

// what a 2xx answer of a mutating request promises to be durable
func (m *C06Monitor) OnResponse(w *world.World, r *world.Req) {
	if r.Res == nil || m.effect == nil {
		return
	}
	st := r.Status()
	mutated := false
	switch r.Res.Kind {
	case t_api.CreatePromise, t_api.CreatePromiseAndTask:
		if st == 20100 {
			mutated = true
			m.acked["promise:"+createReq(r.Req).Id] = "exists"
		}
	case t_api.CompletePromise:
		if st == 20100 {
			mutated = true
			p := r.Res.CompletePromise.Promise
			m.acked["completed:"+r.Req.CompletePromise.Id] = fmt.Sprintf("%d/%s", p.State, p.Value.Data)
		}
	case t_api.CreateCallback:
		if st == 20100 {
			mutated = true
			m.acked["registration:"+fmt.Sprintf("__resume:%s:%s", r.Req.CreateCallback.RootPromiseId, r.Req.CreateCallback.PromiseId)] = "exists"
		}
	case t_api.CreateSubscription:
		if st == 20100 {
			mutated = true
			m.acked["registration:"+fmt.Sprintf("__notify:%s:%s", r.Req.CreateSubscription.PromiseId, r.Req.CreateSubscription.Id)] = "exists"
		}
	case t_api.CreateSchedule:
		if st == 20100 {
			mutated = true
			m.acked["schedule:"+r.Req.CreateSchedule.Id] = "exists"
		}
	case t_api.DeleteSchedule:
		if st == 20400 {
			mutated = true
			delete(m.acked, "schedule:"+r.Req.DeleteSchedule.Id)
		}
	case t_api.ClaimTask:
		if st == 20100 {
			mutated = true
			m.acked["claimed:"+r.Req.ClaimTask.Id] = fmt.Sprint(r.Req.ClaimTask.Counter)
		}
	case t_api.CompleteTask:
		if st == 20100 {
			mutated = true
			m.acked["taskdone:"+r.Req.CompleteTask.Id] = "finished"
		}
	case t_api.AcquireLock:
		if st == 20100 {
			mutated = true
		}
	}
	if mutated && !m.effect[r.Id] {
		w.Violate("C06:acknowledged-before-commit:"+r.Req.Kind.String(), "%s was acknowledged with %d although none of its transactions has committed a change: a crash now would lose an acknowledged write", r.Req.Kind, st)
	}
	m.checkAcked(w, "at response "+r.Id)
}

func (m *C06Monitor) checkAcked(w *world.World, when string) {
	d := w.Dump()
	for k, v := range m.acked {
		kind, id, _ := strings.Cut(k, ":")
		switch kind {
		case "promise":
			if d.Promises[id] == nil {
				w.Violate("C06:acknowledged-promise-lost", "%s: promise %q was acknowledged as created but is gone", when, id)
			}
		case "completed":
			p := d.Promises[id]
			if p == nil || fmt.Sprintf("%d/%s", p.State, ps2(p.ValueData)) != v {
				w.Violate("C06:acknowledged-completion-lost", "%s: completion of %q (%s) was acknowledged but the row is %v", when, id, v, p)
			}
		case "registration":
			_, cb := d.Callbacks[id]
			_, t := d.Tasks[id]
			if !cb && !t {
				w.Violate("C06:acknowledged-registration-lost", "%s: registration %q was acknowledged but neither it nor its task exists", when, id)
			}
		case "schedule":
			if d.Schedules[id] == nil {
				w.Violate("C06:acknowledged-schedule-lost", "%s: schedule %q was acknowledged as created but is gone", when, id)
			}
		case "claimed":
			if t := d.Tasks[id]; t == nil {
				w.Violate("C06:acknowledged-claim-lost", "%s: task %q vanished", when, id)
			}
		case "taskdone":
			if t := d.Tasks[id]; t == nil || !finishedTask(t.State) {
				w.Violate("C06:acknowledged-task-completion-lost", "%s: completion of task %q was acknowledged but it is %v", when, id, t)
			}
		}
	}
}

func (m *C06Monitor) OnCrash(w *world.World) {
	if m.effect == nil {
		m.OnStart(w)
	}
	if w.PreCrash != nil && w.PreCrash.Text() != w.Dump().Text() {
		w.Violate("C06:restart-changed-database", "the database after restart differs from the database at the crash:\nbefore:\n%s\nafter:\n%s", w.PreCrash.Text(), w.Dump().Text())
	}
	crossTable(w, w.Dump(), "C06", "after restart")
	m.checkAcked(w, "after restart")
}

func (m *C06Monitor) OnEnd(w *world.World) {
	if m.effect == nil {
		return
	}
	crossTable(w, w.Dump(), "C06", "at the end")
	m.checkAcked(w, "at the end")
	for _, v := range Unconverged(w.Dump(), w.Clock) {
		w.Violate("C06:no-recovery:"+v.kind, "after restart and background cycles: %s", v.msg)
	}
}

type unconv struct{ kind, msg string }

// Unconverged is the C11 predicate: what background processing still owes at clock t.
func Unconverged(d *world.Dump, t int64) []unconv {
	var out []unconv
	for id, p := range d.Promises {
		if p.State == 1 && p.Timeout <= t {
			out = append(out, unconv{"promise-overdue", fmt.Sprintf("promise %q is pending past its timeout %d (clock %d)", id, p.Timeout, t)})
		}
	}
	for id, l := range d.Locks {
		if l.ExpiresAt <= t {
			out = append(out, unconv{"lock-overdue", fmt.Sprintf("lock %q is held past its lease %d (clock %d)", id, l.ExpiresAt, t)})
		}
	}
	for id, s := range d.Schedules {
		if s.NextRunTime <= t && nextRef(s.NextRunTime, s.Cron) > 0 {
			out = append(out, unconv{"schedule-behind", fmt.Sprintf("schedule %q has next run %d <= clock %d", id, s.NextRunTime, t)})
		}
	}
	for id, tk := range d.Tasks {
		switch tk.State {
		case 1:
			sibling := false
			for _, o := range d.Tasks {
				if o.RootPromiseId == tk.RootPromiseId && (o.State == 2 || o.State == 4) {
					sibling = true
				}
			}
			if !sibling {
				out = append(out, unconv{"task-undispatched", fmt.Sprintf("task %q is dispatchable but was not dispatched", id)})
			}
		case 2, 4:
			if tk.ExpiresAt <= t || tk.Timeout <= t {
				out = append(out, unconv{"task-lease-overdue", fmt.Sprintf("task %s is past its lease/timeout (clock %d)", tk, t)})
			}
		}
	}
	return out
}

func c06Epilogue(w *world.World) {
	// restart once more, read everything back through the API, then let the
	// background processing run on the restarted server
	w.Crash()
	i := 0
	for _, id := range []string{"p", "r"} {
		w.Do(8, i, ReadP(id).F())
		i++
	}
	w.Do(8, i, ReadS("s").F())
	i++
	w.Do(8, i, SearchP("*", AllStates, nil, 10, nil).F())
	for round := 0; round < 6 && len(Unconverged(w.Dump(), w.Clock)) > 0; round++ {
		for _, name := range world.BackgroundNames {
			w.Sweep(name)
		}
	}
}

func C06Scenarios(tier string) []*Scenario {
	var out []*Scenario
	mon := func() []world.Monitor { return []world.Monitor{&C06Monitor{}, &C08Monitor{RouteKey: "resonate:invoke"}} } // the dispatch discipline holds across crashes too
	cr := tierInt(tier, 1, 2)
	workloads := []struct {
		name    string
		setup   func(w *world.World)
		clients [][]ReqF
		sweeps  map[string]int
		clock0  int64
		menu    []int64
	}{
		{"routed-create+claim", nil,
			[][]ReqF{{CreateP("p", "a", false, 100, routedTags, "x"), ClaimT("__invoke:p", 1, "w1", 50), CompleteT("__invoke:p", 1)}, {CreateP("p", "a", false, 100, routedTags, "x")}},
			map[string]int{"EnqueueTasks": 1}, 0, nil},
		{"register+complete", func(w *world.World) {
			w.Do(9, 0, CreateP("r", "", false, 1000, routedTags, "root").F())
			w.Do(9, 1, CreateP("p", "", false, 100, nil, "x").F())
		},
			[][]ReqF{{Callback("r", "p", 100, recvPoll), Subscribe("s1", "p", 100, recvPoll)}, {CompleteP("p", promise.Resolved, "k", false, "v")}},
			map[string]int{"EnqueueTasks": 1}, 0, nil},
		{"timeout-sweep", func(w *world.World) {
			w.Do(9, 0, CreateP("r", "", false, 1000, routedTags, "root").F())
			w.Do(9, 1, CreateP("p", "", false, 10, nil, "x").F())
			w.Do(9, 2, Callback("r", "p", 100, recvPoll).F())
			w.Do(9, 3, Subscribe("s1", "p", 100, recvPoll).F())
		},
			[][]ReqF{{ReadP("p")}, {CreateP("q", "", false, 10, routedTags, "y")}},
			map[string]int{"TimeoutPromises": 1, "EnqueueTasks": 1}, 9, []int64{10}},
		{"schedule", nil,
			[][]ReqF{{CreateS("s", everySecond, "{{.id}}.{{.timestamp}}", 500, "k", routedTags), ReadS("s")}, {CreateP("s.1000", "", false, 5000, nil, "u")}},
			map[string]int{"SchedulePromises": 2}, 0, []int64{1000, 2000}},
		{"lock+task-lease", func(w *world.World) {
			w.Do(9, 0, CreateP("p", "", false, 100, routedTags, "x").F())
		},
			[][]ReqF{{AcquireL("r1", "e1", "p1", 5), ReleaseL("r1", "e1")}, {ClaimT("__invoke:p", 1, "w1", 5), HeartbeatT("w1")}},
			map[string]int{"TimeoutLocks": 1, "TimeoutTasks": 1}, 0, []int64{5}},
	}
	for _, wl := range workloads {
		for _, bs := range []bool{false, true} {
			cfg := taskCfg()
			cfg.CommitFaults = true
			out = append(out, &Scenario{
				CommitFaults: 1,
				Name: fmt.Sprintf("C06/%s/batches=%v", wl.name, bs), Cfg: cfg, Clock0: wl.clock0, Setup: wl.setup,
				Clients: wl.clients, Sweeps: wl.sweeps, ClockMenu: wl.menu, Crashes: cr, Batches: bs && tier == "thorough",
				Faults: tierInt(tier, 0, 1), Epilogue: c06Epilogue, Monitors: mon, Bound: tierInt(tier, 4, -1), StrictDeviations: tier != "thorough",
			})
			if tier != "thorough" {
				break
			}
		}
	}
	return out
}

func init() {
	Registry["C06"] = func() *runner.Spec {
		return &runner.Spec{
			Property: "C06", Engine: "kexplore", Level: "model_checking",
			Jobs: func(tier string) []runner.Job {
				jobs := scenarioJobs("C06", C06Scenarios)(tier)
				jobs = append(jobs, &ProcJob{Tier: tier})
				return jobs
			},
			Rule:   "five workloads (routed create + claim + complete; registration then completion; overdue promise with registrations and the time-out sweep; schedule creation and firing of routed promises; lock and task leases) with a crash (two in thorough: the second during recovery) at EVERY action boundary - before a submission executes, after it committed but before its completion is delivered, between any two steps of any coroutine, in the middle of every sweep - and <=1 transaction whose COMMIT fails or in which a statement in the middle fails, followed by a restart, a read-back through the API and background cycles; plus the real `resonate serve` binary built from the tree: HTTP workload, SIGTERM and SIGKILL, restart on the same SQLite file with the default configuration, read back; the dispatch-discipline monitor of C08 watches the same executions; distinct = distinct (responses, final database) vectors",
			Assume: append([]string{"a crash is process death between two SQL transactions: SQLite's journal/fsync machinery is trusted, the in-process crash model is bound to the real process by the procx job"}, engineAAssume...),
			QuickS: 150, ThoroughS: 1800,
		}
	}
}
