package props

import (
	"fmt"
	"strings"

	"github.com/resonatehq/resonate/internal/kernel/t_api"
	"github.com/resonatehq/resonate/internal/verif/runner"
	"github.com/resonatehq/resonate/internal/verif/world"
	"github.com/resonatehq/resonate/pkg/promise"
)

// ---------------------------------------------------------------------------
// C03 — idempotent create / complete
// ---------------------------------------------------------------------------

// C03Monitor: effect monitors valid in every schedule, plus (Sequential=true) the
// explicit status oracle transcribed from the property statement.
type C03Monitor struct {
	world.BaseMonitor
	Sequential bool
	pre        map[string]*world.Dump // request id -> database as it stood when the request was submitted
	created    map[string]int         // promise id -> number of 201 create responses
	completed  map[string]int
}

func (m *C03Monitor) OnStart(w *world.World) {
	m.pre, m.created, m.completed = map[string]*world.Dump{}, map[string]int{}, map[string]int{}
}

func (m *C03Monitor) Key() string {
	return fmt.Sprintf("%v%v", m.created, m.completed)
}

func (m *C03Monitor) OnSubmit(w *world.World, r *world.Req) {
	if m.pre == nil {
		m.OnStart(w)
	}
	m.pre[r.Id] = w.Dump()
}

func (m *C03Monitor) OnCommit(w *world.World, e *world.CommitEvent) {
	CheckPromiseTransitions(w, e, "C03")
	// an invocation task is only ever born in the commit that creates its promise
	for id, t := range e.After.Tasks {
		if _, ok := e.Before.Tasks[id]; ok {
			continue
		}
		if strings.HasPrefix(id, "__invoke:") {
			pid := strings.TrimPrefix(id, "__invoke:")
			if _, existed := e.Before.Promises[pid]; existed {
				w.Violate("C03:repeat-created-task", "a repeat created a further task %s for existing promise %q", t, pid)
			}
		}
	}
	for id, b := range e.Before.Tasks {
		a, ok := e.After.Tasks[id]
		if !ok || a.SortId != b.SortId || !eqp(a.CreatedOn, b.CreatedOn) {
			w.Violate("C03:task-recreated", "task %q was removed or re-created", id)
		}
	}
}

func ikMatch(row *string, k interface{ String() string }, kNil bool) bool {
	return row != nil && !kNil && *row == k.String()
}

func timedoutState(row *world.PromiseRow) int {
	if jsonMap(row.Tags)["resonate:timeout"] == "true" {
		return 2
	}
	return 16
}

func alreadyStatus(state int) int {
	switch state {
	case 2:
		return 40300
	case 4:
		return 40301
	case 8:
		return 40302
	case 16:
		return 40303
	}
	return -1
}

func (m *C03Monitor) OnResponse(w *world.World, r *world.Req) {
	if r.Res == nil {
		return
	}
	if m.pre == nil {
		m.OnStart(w)
	}
	st := r.Status()
	switch r.Res.Kind {
	case t_api.CreatePromise, t_api.CreatePromiseAndTask:
		id := createReq(r.Req).Id
		if st == 20100 {
			m.created[id]++
			if m.created[id] > 1 {
				w.Violate("C03:created-twice", "promise %q was reported created twice", id)
			}
		}
	case t_api.CompletePromise:
		if st == 20100 {
			id := r.Req.CompletePromise.Id
			m.completed[id]++
			if m.completed[id] > 1 {
				w.Violate("C03:completed-twice", "promise %q was reported completed (201) twice", id)
			}
		}
	}
	// the promise returned by a repeat is the promise as it stands
	for _, p := range ResponsePromises(r) {
		ObservePromise(w, "C03", "response:"+r.Req.Kind.String(), p)
	}
	if !m.Sequential {
		return
	}
	pre := m.pre[r.Id]
	if pre == nil {
		return
	}
	t := r.SubmitClock
	switch r.Res.Kind {
	case t_api.CreatePromise, t_api.CreatePromiseAndTask:
		cr := createReq(r.Req)
		row := pre.Promises[cr.Id]
		want := 0
		if row == nil {
			want = 20100
			if r.Res.Kind == t_api.CreatePromiseAndTask && jsonMap2(cr.Tags)["resonate:invoke"] == "" {
				want = -2 // refused (error 40404), checked below
			}
		} else {
			state := row.State
			if state == 1 && row.Timeout <= t {
				state = timedoutState(row)
			}
			if ikMatch(row.IkCreate, cr.IdempotencyKey, cr.IdempotencyKey == nil) && !(cr.Strict && state != 1) {
				want = 20000
			} else {
				want = 40900
			}
		}
		if want == -2 {
			return
		}
		if st != want {
			w.Violate(fmt.Sprintf("C03:create-status:want%d-got%d", want, st), "create %s at clock %d on row %v answered %d, the statement requires %d", cr, t, row, st, want)
		}
		m.checkRepeatBody(w, r, row, t)
	case t_api.CompletePromise:
		cr := r.Req.CompletePromise
		row := pre.Promises[cr.Id]
		want := 0
		switch {
		case row == nil:
			want = 40400
		case row.State == 1 && t < row.Timeout:
			want = 20100
		default:
			state := row.State
			var ik *string
			if state == 1 {
				state = timedoutState(row) // overdue: the time-out takes effect first, key stays null
			} else {
				ik = row.IkComplete
			}
			strictBad := cr.Strict && state != int(cr.State)
			if ikMatch(ik, cr.IdempotencyKey, cr.IdempotencyKey == nil) && !strictBad {
				want = 20000
			} else if state == 16 && !cr.Strict {
				want = 20000
			} else {
				want = alreadyStatus(state)
			}
		}
		if st != want {
			w.Violate(fmt.Sprintf("C03:complete-status:want%d-got%d", want, st), "complete %s at clock %d on row %v answered %d, the statement requires %d", cr, t, row, st, want)
		}
		m.checkRepeatBody(w, r, row, t)
	}
}

// checkRepeatBody: a repeat leaves the row as it was (other than an overdue time-out)
// and returns it as it stands.
func (m *C03Monitor) checkRepeatBody(w *world.World, r *world.Req, pre *world.PromiseRow, t int64) {
	if pre == nil {
		return
	}
	now := w.Dump().Promises[pre.Id]
	if now == nil {
		return // reported by the transition monitor
	}
	if pre.State != 1 {
		if !completionHalfEqual(pre, now) {
			w.Violate("C03:repeat-changed-promise", "request %s changed completed promise: %s -> %s", r.Req, pre, now)
		}
	} else if pre.Timeout <= t {
		if now.State != timedoutState(pre) {
			w.Violate("C03:overdue-not-timedout", "request %s at clock %d left overdue promise in state %d", r.Req, t, now.State)
		}
	}
	for _, p := range ResponsePromises(r) {
		if p != nil && int(p.State) != now.State {
			w.Violate("C03:repeat-body-stale", "request %s returned state %d but the promise stands at %d", r.Req, p.State, now.State)
		}
	}
}

func createReq(r *t_api.Request) *t_api.CreatePromiseRequest {
	if r.Kind == t_api.CreatePromiseAndTask {
		return r.CreatePromiseAndTask.Promise
	}
	return r.CreatePromise
}

func jsonMap2(m map[string]string) map[string]string {
	if m == nil {
		return map[string]string{}
	}
	return m
}

func c03Alphabet(routed bool) []ReqF {
	var tags map[string]string
	if routed {
		tags = map[string]string{"resonate:invoke": "poll://g/w"}
	}
	var a []ReqF
	for _, k := range []string{"", "a", "b"} {
		for _, strict := range []bool{false, true} {
			a = append(a, CreateP("p", k, strict, 10, tags, "x"))
			for _, st := range []promise.State{promise.Resolved, promise.Rejected, promise.Canceled} {
				a = append(a, CompleteP("p", st, k, strict, "v"+k))
			}
		}
	}
	if routed {
		for _, k := range []string{"", "a"} {
			a = append(a, CreatePT("p", k, false, 10, tags, "w1", 5))
		}
	}
	return a
}

func C03Scenarios(tier string) []*Scenario {
	var out []*Scenario
	depth := tierInt(tier, 3, 4)
	// (i) every sequence of create/complete requests of length <= depth, one at a time,
	// with the clock stepping 9 -> 10 (deadline) -> 11 at any point of the sequence
	for _, routed := range []bool{false, true} {
		for _, tag := range []bool{false, true} {
			routed, tag := routed, tag
			alpha := c03Alphabet(routed)
			if tag {
				// promises that resolve on time-out
				for i := range alpha {
					f := alpha[i].F
					alpha[i].F = func() *t_api.Request {
						r := f()
						if r.Kind == t_api.CreatePromise {
							if r.CreatePromise.Tags == nil {
								r.CreatePromise.Tags = map[string]string{}
							}
							r.CreatePromise.Tags["resonate:timeout"] = "true"
						}
						return r
					}
				}
			}
			cfg := world.DefaultConfig()
			out = append(out, &Scenario{
				Name: fmt.Sprintf("C03/seq/routed=%v/resolve-on-timeout=%v", routed, tag), Cfg: cfg, Clock0: 9,
				Menu: alpha, MenuDepth: depth, AtomicRequests: true, ClockMenu: []int64{10, 11},
				Monitors: func() []world.Monitor { return []world.Monitor{&C03Monitor{Sequential: true}} }, Bound: -1,
			})
		}
	}
	// (ii) retries racing with the original / issued after a lost response
	pairs := [][2]ReqF{}
	cr := []ReqF{CreateP("p", "a", false, 10, map[string]string{"resonate:invoke": "poll://g/w"}, "x"), CreateP("p", "", false, 10, nil, "x"), CreateP("p", "b", true, 10, nil, "y"),
		CreatePT("p", "a", false, 10, map[string]string{"resonate:invoke": "poll://g/w"}, "w1", 5)}
	co := []ReqF{CompleteP("p", promise.Resolved, "a", false, "v1"), CompleteP("p", promise.Rejected, "a", true, "v2"), CompleteP("p", promise.Canceled, "", false, "v3")}
	for _, a := range cr {
		for _, b := range cr {
			pairs = append(pairs, [2]ReqF{a, b})
		}
	}
	for _, a := range co {
		for _, b := range co {
			pairs = append(pairs, [2]ReqF{a, b})
		}
	}
	for _, su := range []setupF{
		{"absent", nil},
		{"pending", func(w *world.World) {
			w.Do(9, 0, CreateP("p", "a", false, 10, map[string]string{"resonate:invoke": "poll://g/w"}, "x").F())
		}},
	} {
		for _, pr := range pairs {
			if su.name == "absent" && pr[0].Label[:6] == "comple" {
				continue
			}
			out = append(out, &Scenario{
				Name: fmt.Sprintf("C03/race/%s/%s+retry|%s+retry", su.name, pr[0].Label, pr[1].Label), Cfg: world.DefaultConfig(), Clock0: 9, Setup: su.f,
				Clients: [][]ReqF{{pr[0], pr[0]}, {pr[1], pr[1]}}, ClockMenu: []int64{10}, Faults: 1,
				Sweeps: map[string]int{"TimeoutPromises": tierInt(tier, 0, 1)},
				Epilogue: promiseEpilogue("p"),
				Monitors: func() []world.Monitor { return []world.Monitor{&C03Monitor{}} }, Bound: -1,
			})
		}
	}
	return out
}

func init() {
	Registry["C03"] = func() *runner.Spec {
		return &runner.Spec{
			Property: "C03", Engine: "kexplore", Level: "model_checking",
			Jobs:   scenarioJobs("C03", C03Scenarios),
			Rule:   "(i) every sequence of length <=3 (4 thorough) over {create, create-with-task, complete} x key {absent,a,b} x strict x state, executed one at a time with the clock at 9/10/11 (deadline 10), checked against the status oracle transcribed from the statement; (ii) every interleaving of two clients each sending a request and its retry, with one lost response / failed transaction; distinct = distinct (responses, final database) vectors",
			Assume: engineAAssume, QuickS: 120, ThoroughS: 1500,
		}
	}
}
