package props

import (
	"fmt"

	"github.com/resonatehq/resonate/internal/kernel/t_api"
	"github.com/resonatehq/resonate/internal/verif/runner"
	"github.com/resonatehq/resonate/internal/verif/world"
)

// ---------------------------------------------------------------------------
// C09 — lock mutual exclusion and leases
// ---------------------------------------------------------------------------

type C09Monitor struct {
	world.BaseMonitor
	// lease end per resource as the property defines it: last acquire or heartbeat
	// (of the owning process) time plus ttl; kept by the oracle, not read from the row
	leaseEnd map[string]int64
	// ttl per resource as the property defines it: the ttl of the holder's last acquire
	// (a heartbeat extends the lease to heartbeat time + THAT ttl); kept by the oracle,
	// the row's ttl column is not trusted
	ttl      map[string]int64
	commitOf map[string]*world.CommitEvent // request id -> its (single) commit
}

func (m *C09Monitor) OnStart(w *world.World) {
	m.leaseEnd = map[string]int64{}
	m.commitOf = map[string]*world.CommitEvent{}
	m.ttl = map[string]int64{}
	for id, l := range w.Dump().Locks {
		m.leaseEnd[id] = l.ExpiresAt
		m.ttl[id] = l.Ttl
	}
}

func (m *C09Monitor) Key() string { return fmt.Sprint(m.leaseEnd, m.ttl) }

func (m *C09Monitor) OnCommit(w *world.World, e *world.CommitEvent) {
	if m.leaseEnd == nil {
		m.OnStart(w)
	}
	if e.Err != nil {
		if e.Before.Text() != e.After.Text() {
			w.Violate("C09:failed-tx-changed-db", "a failed transaction changed the database")
		}
		return
	}
	for _, o := range e.Owners {
		m.commitOf[o] = e
	}
	// what the batch contains
	type acq struct {
		exec, proc string
		ttl, t     int64
	}
	acquires := map[string][]acq{}
	releases := map[string][]string{}
	heartbeats := map[string]int64{} // process -> time
	sweepAt := int64(-1)
	for i, sub := range e.Subs {
		for _, c := range sub.Store.Transaction.Commands {
			switch {
			case c.AcquireLock != nil:
				acquires[c.AcquireLock.ResourceId] = append(acquires[c.AcquireLock.ResourceId], acq{c.AcquireLock.ExecutionId, c.AcquireLock.ProcessId, c.AcquireLock.Ttl, e.SubClocks[i]})
				if c.AcquireLock.ExpiresAt != e.SubClocks[i]+c.AcquireLock.Ttl {
					w.Violate("C09:acquire-expiry", "acquire of %q computes lease end %d, want clock %d + ttl %d", c.AcquireLock.ResourceId, c.AcquireLock.ExpiresAt, e.SubClocks[i], c.AcquireLock.Ttl)
				}
			case c.ReleaseLock != nil:
				releases[c.ReleaseLock.ResourceId] = append(releases[c.ReleaseLock.ResourceId], c.ReleaseLock.ExecutionId)
			case c.HeartbeatLocks != nil:
				heartbeats[c.HeartbeatLocks.ProcessId] = c.HeartbeatLocks.Time
			case c.TimeoutLocks != nil:
				// the sweep is judged at the clock at which it decided, not at the
				// value it put into its command
				if e.SubClocks[i] > sweepAt {
					sweepAt = e.SubClocks[i]
				}
			}
		}
	}
	single := len(e.Subs) == 1
	for id, b := range e.Before.Locks {
		a := e.After.Locks[id]
		if a == nil {
			// the row disappeared: release by its own execution, or sweep at/after the lease end
			ok := false
			for _, ex := range releases[id] {
				if ex == b.ExecutionId {
					ok = true
				}
			}
			if sweepAt >= 0 && sweepAt >= m.leaseEnd[id] && sweepAt >= b.ExpiresAt {
				ok = true
			}
			if !ok && single {
				w.Violate("C09:lock-taken-away", "lock %s disappeared in commit %v although its lease runs until %d (clock %d): neither released by its execution nor expired", b, e.Owners, m.leaseEnd[id], e.Clock)
			}
			delete(m.leaseEnd, id)
			delete(m.ttl, id)
			continue
		}
		if a.ExecutionId != b.ExecutionId {
			// holder changed in place
			if single {
				w.Violate("C09:holder-changed", "lock %q changed holder in place: %s -> %s (commit %v)", id, b, a, e.Owners)
			}
		}
		if a.ExecutionId != b.ExecutionId {
			m.ttl[id] = a.Ttl // released and taken by another execution inside one batch
		}
		// the ttl the lease is computed from: that of the holder's last acquire, also when
		// the re-acquire is part of this very batch
		for _, q := range acquires[id] {
			if q.exec == b.ExecutionId && a.ExecutionId == b.ExecutionId {
				m.ttl[id] = q.ttl
			}
		}
		if a.ExpiresAt != b.ExpiresAt || a.ProcessId != b.ProcessId || a.Ttl != b.Ttl {
			ok := false
			for _, q := range acquires[id] {
				if q.exec == b.ExecutionId && a.ExpiresAt == q.t+q.ttl && a.ProcessId == q.proc {
					ok = true
					m.leaseEnd[id] = q.t + q.ttl
				}
			}
			if t, hb := heartbeats[b.ProcessId]; hb && a.ProcessId == b.ProcessId {
				if a.ExpiresAt == t+m.ttl[id] {
					ok = true
					m.leaseEnd[id] = t + m.ttl[id]
				} else if !ok && single && a.ExpiresAt == t+b.Ttl {
					ok = true // reported here, not again as lease-rewritten
					w.Violate("C09:heartbeat-lease-not-from-acquired-ttl", "heartbeat of process %q at %d moved the lease of lock %q to %d, but the holder's last acquire asked for ttl %d (lease end %d): %s -> %s (commit %v)", b.ProcessId, t, id, a.ExpiresAt, m.ttl[id], t+m.ttl[id], b, a, e.Owners)
					m.leaseEnd[id] = t + m.ttl[id]
				}
			}
			if !ok && !single {
				m.leaseEnd[id] = a.ExpiresAt // several commands of one batch touched the row: not attributable
				m.ttl[id] = a.Ttl
			}
			if !ok && single {
				w.Violate("C09:lease-rewritten", "lock %q lease/owner fields changed without an acquire by its execution or a heartbeat of its process: %s -> %s (commit %v)", id, b, a, e.Owners)
			}
		}
	}
	for id, a := range e.After.Locks {
		if _, ok := e.Before.Locks[id]; ok {
			continue
		}
		ok := false
		for _, q := range acquires[id] {
			if q.exec == a.ExecutionId && q.proc == a.ProcessId && a.Ttl == q.ttl {
				m.ttl[id] = q.ttl
				if a.ExpiresAt == q.t+q.ttl {
					ok = true
					m.leaseEnd[id] = q.t + q.ttl
				} else if t, hb := heartbeats[a.ProcessId]; hb && !single && a.ExpiresAt == t+a.Ttl {
					ok = true // acquired and heartbeated inside one batch
					m.leaseEnd[id] = t + a.Ttl
				}
			}
		}
		if !ok {
			w.Violate("C09:lock-created-without-acquire", "lock %s appeared without a matching acquire (commit %v): a heartbeat or other command created or transferred it", a, e.Owners)
			m.leaseEnd[id] = a.ExpiresAt
			m.ttl[id] = a.Ttl
		}
	}
}

func (m *C09Monitor) OnResponse(w *world.World, r *world.Req) {
	if r.Res == nil {
		return
	}
	e := m.commitOf[r.Id]
	if e == nil || len(e.Subs) != 1 {
		return
	}
	switch r.Res.Kind {
	case t_api.AcquireLock:
		q := r.Req.AcquireLock
		b, a := e.Before.Locks[q.ResourceId], e.After.Locks[q.ResourceId]
		heldByOther := b != nil && b.ExecutionId != q.ExecutionId
		switch r.Status() {
		case 20100:
			if heldByOther {
				w.Violate("C09:acquire-granted-while-held", "acquire %s was granted although %s held the lock", q, b)
			}
			if a == nil || a.ExecutionId != q.ExecutionId {
				w.Violate("C09:acquire-granted-not-held", "acquire %s was granted but the row is %v", q, a)
			}
			if l := r.Res.AcquireLock.Lock; l == nil || l.ResourceId != q.ResourceId || l.ExecutionId != q.ExecutionId || l.ProcessId != q.ProcessId || l.Ttl != q.Ttl || (a != nil && l.ExpiresAt != a.ExpiresAt) {
				w.Violate("C09:acquire-body", "acquire %s returned lock %v, row %v", q, l, a)
			}
		case 40304:
			if !heldByOther {
				w.Violate("C09:acquire-refused-while-free", "acquire %s was refused although the lock was free or its own (%v)", q, b)
			}
			if e.Before.Text() != e.After.Text() {
				w.Violate("C09:refused-acquire-had-effect", "refused acquire %s changed the database", q)
			}
		default:
			w.Violate(fmt.Sprintf("C09:acquire-status-%d", r.Status()), "acquire %s answered %d", q, r.Status())
		}
	case t_api.ReleaseLock:
		q := r.Req.ReleaseLock
		b := e.Before.Locks[q.ResourceId]
		own := b != nil && b.ExecutionId == q.ExecutionId
		switch r.Status() {
		case 20400:
			if !own {
				w.Violate("C09:release-of-foreign-lock-succeeded", "release %s succeeded although the lock was %v", q, b)
			}
		case 40402:
			if own {
				w.Violate("C09:release-not-found-but-held", "release %s said not found although %s was held", q, b)
			}
			if e.Before.Text() != e.After.Text() {
				w.Violate("C09:failed-release-had-effect", "release %s answered not-found but changed the database", q)
			}
		default:
			w.Violate(fmt.Sprintf("C09:release-status-%d", r.Status()), "release %s answered %d", q, r.Status())
		}
	case t_api.HeartbeatLocks:
		n := int64(0)
		for _, b := range e.Before.Locks {
			if b.ProcessId == r.Req.HeartbeatLocks.ProcessId {
				n++
			}
		}
		if r.Res.HeartbeatLocks.LocksAffected != n {
			w.Violate("C09:heartbeat-count", "heartbeat of %q reports %d locks, the process held %d", r.Req.HeartbeatLocks.ProcessId, r.Res.HeartbeatLocks.LocksAffected, n)
		}
	}
}

func C09Scenarios(tier string) []*Scenario {
	var out []*Scenario
	mon := func() []world.Monitor { return []world.Monitor{&C09Monitor{}} }
	alpha := []ReqF{
		AcquireL("r1", "e1", "p1", 5), AcquireL("r1", "e2", "p2", 5), AcquireL("r1", "e1", "p2", 0), AcquireL("r2", "e2", "p1", 5),
		ReleaseL("r1", "e1"), ReleaseL("r1", "e2"), HeartbeatL("p1"), HeartbeatL("p2"),
	}
	setups := []setupF{
		{"free", nil},
		{"held-e1", func(w *world.World) { w.Do(9, 0, AcquireL("r1", "e1", "p1", 5).F()) }},
		{"held-e1+e2", func(w *world.World) {
			w.Do(9, 0, AcquireL("r1", "e1", "p1", 5).F())
			w.Do(9, 1, AcquireL("r2", "e2", "p1", 5).F())
		}},
	}
	// (i) all sequences of <=3 (4) lock operations with the clock walking over the lease end and the sweep
	for _, su := range setups {
		out = append(out, &Scenario{
			Name: "C09/seq/" + su.name, Cfg: world.DefaultConfig(), Clock0: 0, Setup: su.f,
			Menu: alpha, MenuDepth: tierInt(tier, 3, 4), AtomicRequests: true, ClockMenu: []int64{4, 5, 6}, Sweeps: map[string]int{"TimeoutLocks": 2},
			Monitors: mon, Bound: -1,
		})
	}
	// (ii) concurrent pairs/triples with the sweep and faults, both orders in one batch
	for _, su := range setups {
		for i := 0; i < len(alpha); i++ {
			for j := i; j < len(alpha); j++ {
				out = append(out, &Scenario{
					Name: fmt.Sprintf("C09/%s/%s|%s", su.name, alpha[i].Label, alpha[j].Label), Cfg: world.DefaultConfig(), Clock0: 0, Setup: su.f,
					Clients: twoStep(tier, alpha[i], alpha[4], alpha[j], alpha[6]), ClockMenu: []int64{4, 5, 6}, Sweeps: map[string]int{"TimeoutLocks": 1},
					Faults: 1, Batches: true, Monitors: mon, Bound: -1,
				})
			}
		}
	}
	return out
}

func twoStep(tier string, a, a2, b, b2 ReqF) [][]ReqF {
	if tier == "thorough" {
		return [][]ReqF{{a, a2}, {b, b2}}
	}
	return [][]ReqF{{a}, {b}}
}

func init() {
	Registry["C09"] = func() *runner.Spec {
		return &runner.Spec{
			Property: "C09", Engine: "kexplore", Level: "model_checking",
			Jobs:   scenarioJobs("C09", C09Scenarios),
			Rule:   "(i) every sequence of <=3 (4 thorough) acquire/re-acquire/release/heartbeat operations over 2 resources, 2 executions, 2 processes, ttl {0,5}, with the clock stepping over the lease end (4,5,6) and the expiry sweep anywhere; (ii) every interleaving of two clients (2 requests each) with the sweep, one fault and both orders in one SQL batch; distinct = distinct (responses, final database) vectors",
			Assume: engineAAssume, QuickS: 120, ThoroughS: 1200,
		}
	}
}
