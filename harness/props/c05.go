package props

import (
	"fmt"

	"github.com/resonatehq/resonate/internal/kernel/t_api"
	"github.com/resonatehq/resonate/internal/verif/runner"
	"github.com/resonatehq/resonate/internal/verif/world"
	"github.com/resonatehq/resonate/pkg/promise"
)

// ---------------------------------------------------------------------------
// C05 — no lost wake-ups
// ---------------------------------------------------------------------------

type C05Monitor struct{ world.BaseMonitor }

func (C05Monitor) OnCommit(w *world.World, e *world.CommitEvent) {
	CheckPromiseTransitions(w, e, "C05")
	// (a) no registration outlives its promise
	for id, cb := range e.After.Callbacks {
		p, ok := e.After.Promises[cb.PromiseId]
		if !ok || p.State != 1 {
			st := -1
			if ok {
				st = p.State
			}
			w.Violate("C05:registration-outlives-promise", "registration %q refers to promise %q which is not pending (state %d) after commit by %v", id, cb.PromiseId, st, e.Owners)
		}
	}
	// (b) the completing commit turns exactly the registrations into tasks
	for pid, b := range e.Before.Promises {
		a := e.After.Promises[pid]
		if a == nil || b.State != 1 || a.State == 1 {
			continue
		}
		want := map[string]*world.CallbackRow{}
		for id, cb := range e.Before.Callbacks {
			if cb.PromiseId == pid {
				want[id] = cb
			}
		}
		for id, cb := range want {
			t, ok := e.After.Tasks[id]
			if !ok {
				w.Violate("C05:registration-dropped", "promise %q completed (commit by %v) but registration %q did not become a task", pid, e.Owners, id)
				continue
			}
			if _, existed := e.Before.Tasks[id]; existed {
				w.Violate("C05:task-preexisted", "task %q existed before the completion of %q", id, pid)
			}
			if t.Recv != cb.Recv || t.Mesg != cb.Mesg || t.RootPromiseId != cb.RootPromiseId || t.Timeout != cb.Timeout || t.Counter != 1 {
				w.Violate("C05:task-differs-from-registration", "task %s differs from registration %s", t, cb)
			}
		}
		for id, t := range e.After.Tasks {
			if _, existed := e.Before.Tasks[id]; existed {
				continue
			}
			if _, ok := want[id]; !ok && id != "__invoke:"+pid && !registeredInBatch(e, id) {
				// a task born in the completing commit that no registration asked for
				if t.RootPromiseId == pid || isRegistrationTaskOf(id, pid) {
					w.Violate("C05:spurious-task", "completion of %q created task %s without a registration", pid, t)
				}
			}
		}
	}
	// a notification task leaves its initial state only through a command addressed
	// to it (dispatch, time-out) — never as a side effect of another transaction
	for id, a := range e.After.Tasks {
		if len(id) < 9 || id[:9] != "__notify:" || a.State == 1 {
			continue
		}
		if b, ok := e.Before.Tasks[id]; ok && b.State != 1 {
			continue
		}
		addressed := false
		for _, sub := range e.Subs {
			for _, c := range sub.Store.Transaction.Commands {
				if c.UpdateTask != nil && c.UpdateTask.Id == id {
					addressed = true
				}
			}
		}
		if !addressed {
			w.Violate("C05:notification-killed-undelivered", "notification task %q was finished (state %d) by commit %v without ever being handed off: the subscriber is never notified", id, a.State, e.Owners)
		}
	}
	// tasks never disappear and keep their identity
	for id, b := range e.Before.Tasks {
		a, ok := e.After.Tasks[id]
		if !ok {
			w.Violate("C05:task-disappeared", "task %q disappeared", id)
			continue
		}
		if a.SortId != b.SortId || a.Recv != b.Recv || a.Mesg != b.Mesg || a.RootPromiseId != b.RootPromiseId || !eqp(a.CreatedOn, b.CreatedOn) {
			w.Violate("C05:task-recreated", "task %q was re-created or rewritten: %s -> %s", id, b, a)
		}
	}
}

func registeredInBatch(e *world.CommitEvent, id string) bool {
	for _, sub := range e.Subs {
		for _, c := range sub.Store.Transaction.Commands {
			if c.CreateCallback != nil && c.CreateCallback.Id == id {
				return true
			}
		}
	}
	return false
}

func isRegistrationTaskOf(taskId, pid string) bool {
	return len(taskId) > len("__notify:"+pid) && taskId[:len("__notify:"+pid)+1] == "__notify:"+pid+":"
}

// (c) an acknowledged registration either reports a completed promise or left a registration
func (C05Monitor) OnResponse(w *world.World, r *world.Req) {
	if r.Res == nil {
		return
	}
	var st t_api.StatusCode
	var p *promise.Promise
	var derived, kind string
	switch r.Res.Kind {
	case t_api.CreateCallback:
		st, p = r.Res.CreateCallback.Status, r.Res.CreateCallback.Promise
		derived = fmt.Sprintf("__resume:%s:%s", r.Req.CreateCallback.RootPromiseId, r.Req.CreateCallback.PromiseId)
		kind = "CreateCallback"
	case t_api.CreateSubscription:
		st, p = r.Res.CreateSubscription.Status, r.Res.CreateSubscription.Promise
		derived = fmt.Sprintf("__notify:%s:%s", r.Req.CreateSubscription.PromiseId, r.Req.CreateSubscription.Id)
		kind = "CreateSubscription"
	default:
		return
	}
	if st != t_api.StatusOK && st != t_api.StatusCreated {
		return
	}
	if p == nil {
		w.Violate("C05:ack-without-promise:"+kind, "%s acknowledged with status %d but no promise", kind, st)
		return
	}
	if p.State != promise.Pending {
		return // caller is told not to wait
	}
	d := w.Dump()
	if cb, ok := d.Callbacks[derived]; ok {
		// the registration found under the derived id must be THIS registration: ids are
		// joined with ':' and client ids may contain ':' themselves
		wantP, wantRoot := "", ""
		if r.Req.CreateCallback != nil {
			wantP, wantRoot = r.Req.CreateCallback.PromiseId, r.Req.CreateCallback.RootPromiseId
		} else {
			wantP, wantRoot = r.Req.CreateSubscription.PromiseId, r.Req.CreateSubscription.PromiseId
		}
		if cb.PromiseId != wantP || cb.RootPromiseId != wantRoot {
			w.Violate("C05:registration-aliased:"+kind, "%s for promise %q (root %q) was acknowledged with the promise PENDING, but the registration stored under the derived id %q belongs to promise %q (root %q): the two id pairs collide and this caller is never woken", kind, wantP, wantRoot, derived, cb.PromiseId, cb.RootPromiseId)
		}
		return
	}
	if _, ok := d.Tasks[derived]; ok {
		return // the registration has already been converted
	}
	w.Violate("C05:ack-without-registration:"+kind, "%s answered %d with the promise still PENDING but no registration %q (nor its task) exists: the caller waits for a wake-up that will never come", kind, st, derived)
}

func C05Scenarios(tier string) []*Scenario {
	regs := []ReqF{
		Callback("r", "p", 100, recvPoll),
		Callback("r2", "p", 100, recvPoll),
		Subscribe("s1", "p", 100, recvPoll),
	}
	completions := []ReqF{
		CompleteP("p", promise.Resolved, "a", false, "v1"),
		ReadP("p"),
		CreateP("p", "a", false, 10, nil, "x"),
		SearchP("*", AllStates, nil, 10, nil),
	}
	setups := []setupF{
		{"pending", func(w *world.World) {
			w.Do(9, 0, CreateP("r", "", false, 1000, nil, "root").F())
			w.Do(9, 1, CreateP("r2", "", false, 1000, nil, "root").F())
			w.Do(9, 2, CreateP("p", "a", false, 10, nil, "x").F())
		}},
		{"pending+1reg", func(w *world.World) {
			w.Do(9, 0, CreateP("r", "", false, 1000, nil, "root").F())
			w.Do(9, 1, CreateP("r2", "", false, 1000, nil, "root").F())
			w.Do(9, 2, CreateP("p", "a", false, 10, nil, "x").F())
			w.Do(9, 3, Callback("r", "p", 100, recvPoll).F())
		}},
		{"pending+3reg", func(w *world.World) {
			w.Do(9, 0, CreateP("r", "", false, 1000, nil, "root").F())
			w.Do(9, 1, CreateP("r2", "", false, 1000, nil, "root").F())
			w.Do(9, 2, CreateP("p", "a", false, 10, nil, "x").F())
			w.Do(9, 3, Callback("r", "p", 100, recvPoll).F())
			w.Do(9, 4, Subscribe("s1", "p", 100, recvPoll).F())
			w.Do(9, 5, Subscribe("s2", "p", 100, `"poll://g/x"`).F())
		}},
	}
	mon := func() []world.Monitor { return []world.Monitor{C05Monitor{}} }
	var out []*Scenario
	for _, su := range setups {
		for _, rg := range regs {
			for _, cp := range completions {
				// registration || completion path, with the sweep as a third party
				out = append(out, &Scenario{
					Name: fmt.Sprintf("C05/%s/%s|%s", su.name, rg.Label, cp.Label), Cfg: world.DefaultConfig(), Clock0: 9, Setup: su.f,
					Clients: [][]ReqF{{rg}, {cp}}, Sweeps: map[string]int{"TimeoutPromises": 1}, ClockMenu: []int64{10},
					Faults: 1, Batches: true, Epilogue: promiseEpilogue("p"), Monitors: mon, Bound: -1,
				})
			}
			// registration twice (retry) || completion
			out = append(out, &Scenario{
				Name: fmt.Sprintf("C05/%s/retry %s|complete", su.name, rg.Label), Cfg: world.DefaultConfig(), Clock0: 9, Setup: su.f,
				Clients: [][]ReqF{{rg, rg}, {completions[0]}}, Sweeps: map[string]int{"TimeoutPromises": tierInt(tier, 0, 1)}, ClockMenu: []int64{10},
				Faults: 1, Epilogue: promiseEpilogue("p"), Monitors: mon, Bound: -1,
			})
			// crash between the steps
			out = append(out, &Scenario{
				Name: fmt.Sprintf("C05/%s/crash %s|complete", su.name, rg.Label), Cfg: world.DefaultConfig(), Clock0: 9, Setup: su.f,
				Clients: [][]ReqF{{rg, rg}, {completions[0], completions[1]}}[:2], Sweeps: map[string]int{"TimeoutPromises": tierInt(tier, 0, 1)}, ClockMenu: []int64{10},
				Crashes: 1, Epilogue: promiseEpilogue("p"), Monitors: mon, Bound: -1,
			})
		}
		// two registrations racing with each other and a completion
		for i := 0; i < len(regs); i++ {
			for j := i; j < len(regs); j++ {
				out = append(out, &Scenario{
					Name: fmt.Sprintf("C05/%s/%s|%s|complete", su.name, regs[i].Label, regs[j].Label), Cfg: world.DefaultConfig(), Clock0: 9, Setup: su.f,
					Clients: [][]ReqF{{regs[i]}, {regs[j]}, {completions[0]}}, ClockMenu: []int64{10},
					Faults: tierInt(tier, 0, 1), Epilogue: promiseEpilogue("p"), Monitors: mon, Bound: -1,
				})
			}
		}
	}
	// client ids that contain the separator of the derived registration ids
	aliasSetup := func(w *world.World) {
		for i, id := range []string{"a:b", "c", "a", "b:c"} {
			w.Do(9, i, CreateP(id, "", false, 1000, nil, "x").F())
		}
	}
	// ... and ids that differ only in what SQL pattern matching or case folding ignores
	likeSetup := func(w *world.World) {
		for i, id := range []string{"job.1", "job_1", "Billing", "billing", "ab", "a%", "c"} {
			w.Do(9, i, CreateP(id, "", false, 1000, nil, "x").F())
		}
	}
	for _, pair := range [][2]ReqF{
		{Callback("job.1", "c", 100, recvPoll), Callback("job_1", "c", 100, recvPoll)},
		{Callback("Billing", "c", 100, recvPoll), Callback("billing", "c", 100, recvPoll)},
		{Subscribe("ab", "c", 100, recvPoll), Subscribe("a%", "c", 100, recvPoll)},
		{Subscribe("Billing", "c", 100, recvPoll), Subscribe("billing", "c", 100, recvPoll)},
	} {
		out = append(out, &Scenario{
			Name: fmt.Sprintf("C05/ids-that-pattern-match/%s|%s", pair[0].Label, pair[1].Label), Cfg: world.DefaultConfig(), Clock0: 9, Setup: likeSetup,
			Clients: [][]ReqF{{pair[0]}, {pair[1]}}, ClockMenu: []int64{10},
			Epilogue: promiseEpilogue("c"), Monitors: mon, Bound: -1,
		})
	}
	for _, pair := range [][2]ReqF{
		{Callback("a:b", "c", 100, recvPoll), Callback("a", "b:c", 100, recvPoll)},
		{Subscribe("c", "a:b", 100, recvPoll), Subscribe("b:c", "a", 100, recvPoll)},
	} {
		out = append(out, &Scenario{
			Name: fmt.Sprintf("C05/ids-with-separator/%s|%s", pair[0].Label, pair[1].Label), Cfg: world.DefaultConfig(), Clock0: 9, Setup: aliasSetup,
			Clients: [][]ReqF{{pair[0]}, {pair[1]}}, ClockMenu: []int64{10},
			Epilogue: promiseEpilogue("c", "b:c", "a", "a:b"), Monitors: mon, Bound: -1,
		})
	}
	if tier == "thorough" {
		for _, su := range setups {
			for _, rg := range regs {
				for _, cp := range completions {
					out = append(out, &Scenario{
						Name: fmt.Sprintf("C05/t/%s/%s|%s", su.name, rg.Label, cp.Label), Cfg: world.DefaultConfig(), Clock0: 9, Setup: su.f,
						Clients: [][]ReqF{{rg, rg}, {cp, ReadP("p")}}, Sweeps: map[string]int{"TimeoutPromises": 1}, ClockMenu: []int64{10},
						Faults: 2, Crashes: 1, Batches: true, Epilogue: promiseEpilogue("p"), Monitors: mon, Bound: -1,
					})
				}
			}
		}
	}
	return out
}

func tierInt(tier string, quick, thorough int) int {
	if tier == "thorough" {
		return thorough
	}
	return quick
}

func init() {
	Registry["C05"] = func() *runner.Spec {
		return &runner.Spec{
			Property: "C05", Engine: "kexplore", Level: "model_checking",
			Jobs:   scenarioJobs("C05", C05Scenarios),
			Rule:   "every interleaving (incl. both orders inside one SQL batch) of registration requests (callbacks, subscriptions, re-registrations) with every completion path (explicit, lazy time-out by read/create/search, background sweep) of the awaited promise, <=1 fault (2 thorough), <=1 crash, 0-3 existing registrations; plus registration ids that contain the ':' separator of the derived ids or differ only in what SQL LIKE ignores; distinct = distinct (responses, final database) vectors per scenario",
			Assume: engineAAssume, QuickS: 150, ThoroughS: 1500,
		}
	}
}
