package props

import (
	"fmt"
	"regexp"
	"sort"
	"strings"
	"time"

	"github.com/resonatehq/resonate/internal/app/subsystems/api"
	"github.com/resonatehq/resonate/internal/kernel/t_api"
	"github.com/resonatehq/resonate/internal/verif/runner"
	"github.com/resonatehq/resonate/internal/verif/vx"
	"github.com/resonatehq/resonate/internal/verif/world"
	"github.com/resonatehq/resonate/pkg/promise"
)

// ---------------------------------------------------------------------------
// C14 — search with cursors
// ---------------------------------------------------------------------------

type c14Query struct {
	pat   string
	state string // "", pending, resolved, rejected (the API's filter names)
	tags  map[string]string
	limit int
	sched bool
}

func (q c14Query) String() string {
	return fmt.Sprintf("sched=%v pat=%q state=%q tags=%v limit=%d", q.sched, q.pat, q.state, q.tags, q.limit)
}

type C14Job struct {
	Q      c14Query
	Muts   int
	Clock0 int64
	// Extra: that many more pending promises n000, n001, ... (the largest page sizes)
	Extra int
	// DefaultLimit: the request carries no limit (the API's default page size, Q.limit, applies)
	DefaultLimit bool
}

func (j *C14Job) Name() string {
	if j.Extra > 0 {
		return fmt.Sprintf("C14/population+%d/default-limit=%v/%s", j.Extra, j.DefaultLimit, j.Q.String())
	}
	return "C14/" + j.Q.String()
}

func globRe(pat string) *regexp.Regexp {
	parts := strings.Split(pat, "*")
	for i := range parts {
		parts[i] = regexp.QuoteMeta(parts[i])
	}
	return regexp.MustCompile("^" + strings.Join(parts, ".*") + "$")
}

// reference matcher on a dump (the overdue-pending promise counts in the state it
// will be reported in: the search times it out before answering)
func (q c14Query) matches(d *world.Dump, clock int64) map[string]int64 {
	out := map[string]int64{}
	re := globRe(q.pat)
	if q.sched {
		for id, s := range d.Schedules {
			if !re.MatchString(id) {
				continue
			}
			ok := true
			tg := jsonMap(s.Tags)
			for k, v := range q.tags {
				if tg[k] != v {
					ok = false
				}
			}
			if ok {
				out[id] = s.SortId
			}
		}
		return out
	}
	for id, p := range d.Promises {
		if !re.MatchString(id) {
			continue
		}
		st := p.State
		if st == 1 && p.Timeout <= clock {
			st = timedoutState(p)
		}
		ok := false
		switch q.state {
		case "":
			ok = true
		case "pending":
			ok = st == 1
		case "resolved":
			ok = st == 2
		case "rejected":
			ok = st == 4 || st == 8 || st == 16
		}
		tg := jsonMap(p.Tags)
		for k, v := range q.tags {
			if tg[k] != v {
				ok = false
			}
		}
		if ok {
			out[id] = p.SortId
		}
	}
	return out
}

func c14Setup(w *world.World) {
	x1 := map[string]string{"x": "1"}
	xy := map[string]string{"x": "1", "y": "2"}
	y2 := map[string]string{"y": "2"}
	w.Do(9, 0, CreateP("a", "", false, 1000, x1, "d").F())
	w.Do(9, 1, CreateP("ab", "", false, 1000, xy, "d").F())
	w.Do(9, 2, CreateP("abc", "", false, 1000, nil, "d").F())
	w.Do(9, 3, CreateP("b/a", "", false, 20, y2, "d").F()) // becomes overdue when the clock reaches 20
	w.Do(9, 4, CreateP("ba", "", false, 1000, x1, "d").F())
	w.Do(9, 5, CompleteP("ab", promise.Resolved, "", false, "v").F())
	w.Do(9, 6, CompleteP("abc", promise.Rejected, "", false, "v").F())
	w.Do(9, 7, CompleteP("ba", promise.Canceled, "", false, "v").F())
	for i, id := range []string{"a", "ab", "b/a", "ba"} {
		tags := x1
		if i%2 == 1 {
			tags = xy
		}
		rf := CreateS(id, "0 0 1 1 *", "x.{{.timestamp}}", 10, "", nil)
		r := rf.F()
		r.CreateSchedule.Tags = cpTags(tags)
		w.Do(9, 10+i, r)
	}
}

type c14Mut struct {
	label string
	f     func(w *world.World, n int)
}

func c14Mutations(sched bool) []c14Mut {
	if sched {
		return []c14Mut{
			{"delete(ab)", func(w *world.World, n int) { w.Do(7, n, DeleteS("ab").F()) }},
			{"delete(ba)", func(w *world.World, n int) { w.Do(7, n, DeleteS("ba").F()) }},
			{"create(aa)", func(w *world.World, n int) {
				r := CreateS("aa", "0 0 1 1 *", "x", 10, "", nil).F()
				r.CreateSchedule.Tags = map[string]string{"x": "1"}
				w.Do(7, n, r)
			}},
			// the newest schedules go away and one of them comes back (a traversal that has
			// already returned it must not meet it again further down)
			{"delete(b/a)", func(w *world.World, n int) { w.Do(7, n, DeleteS("b/a").F()) }},
			{"create(ba) again", func(w *world.World, n int) {
				r := CreateS("ba", "0 0 1 1 *", "x.{{.timestamp}}", 10, "", nil).F()
				r.CreateSchedule.Tags = map[string]string{"x": "1"}
				w.Do(7, n, r)
			}},
		}
	}
	return []c14Mut{
		{"create(aa,x=1)", func(w *world.World, n int) { w.Do(7, n, CreateP("aa", "", false, 1000, map[string]string{"x": "1"}, "d").F()) }},
		{"complete(a,resolved)", func(w *world.World, n int) { w.Do(7, n, CompleteP("a", promise.Resolved, "", false, "v").F()) }},
		{"clock->20 (b/a overdue)", func(w *world.World, n int) {
			if w.Clock < 20 {
				w.SetClock(20)
			}
		}},
		{"sweep", func(w *world.World, n int) { w.Sweep("TimeoutPromises") }},
		{"complete(ba..) create(abd,y=2)", func(w *world.World, n int) { w.Do(7, n, CreateP("abd", "", false, 1000, map[string]string{"y": "2"}, "d").F()) }},
	}
}

func (j *C14Job) runOnce(ch *vx.Chooser, img **world.Image, imgClock *int64) (viol []world.Violation, labels []string, choices []int, outcome string) {
	cfg := world.DefaultConfig()
	if *img != nil {
		cfg.Image = *img
	}
	w := world.New(cfg)
	defer func() {
		if r := recover(); r != nil {
			if d, ok := r.(vx.Divergence); ok {
				panic(d)
			}
			w.Violate("panic:"+firstLine(fmt.Sprint(r)), "panic on the kernel thread: %v", r)
		}
		viol, labels, choices = w.Viol, ch.Labels(), ch.Choices()
		func() {
			defer func() { _ = recover() }()
			w.Close()
		}()
	}()
	if *img == nil {
		w.Clock = j.Clock0
		c14Setup(w)
		for i := 0; i < j.Extra; i++ {
			w.Do(9, 100+i, CreateP(fmt.Sprintf("n%03d", i), "", false, 1000, nil, "d").F())
		}
		*img, *imgClock = &world.Image{Bytes: w.Snapshot()}, w.Clock
	} else {
		w.Clock = *imgClock
	}
	helper := api.New(nil, "verif")
	muts := c14Mutations(j.Q.sched)
	budget := j.Muts
	token := ""
	var M, m map[string]int64
	returned := map[string]bool{}
	overdue := map[string]bool{} // matched logically while still stored as pending
	var order []int64
	nreq := 0
	for page := 0; page < 12; page++ {
		// mutations before this page
		for budget > 0 {
			lab := []string{"no mutation"}
			for _, mu := range muts {
				lab = append(lab, mu.label)
			}
			c := ch.Choose(lab, nil)
			if c == 0 {
				break
			}
			budget--
			nreq++
			muts[c-1].f(w, nreq)
		}
		var req *t_api.Request
		if j.Q.sched {
			sr, e := helper.SearchSchedules(j.Q.pat, j.Q.tags, j.Q.limit, token)
			if e != nil {
				w.Violate("C14:helper-rejects-own-cursor", "SearchSchedules helper rejected %q / cursor: %v", j.Q, e)
				return
			}
			req = &t_api.Request{Kind: t_api.SearchSchedules, SearchSchedules: sr}
		} else {
			lim := j.Q.limit
			if j.DefaultLimit {
				lim = 0
			}
			sr, e := helper.SearchPromises(j.Q.pat, j.Q.state, j.Q.tags, lim, token)
			if e != nil {
				w.Violate("C14:helper-rejects-own-cursor", "SearchPromises helper rejected %q / cursor: %v", j.Q, e)
				return
			}
			req = &t_api.Request{Kind: t_api.SearchPromises, SearchPromises: sr}
		}
		nreq++
		r := w.Do(6, nreq, req)
		if r.Res == nil {
			w.Violate("C14:search-failed", "search failed: %v", r.Err)
			return
		}
		now := j.Q.matches(w.Dump(), w.Clock)
		if !j.Q.sched {
			for id := range now {
				if p := w.Dump().Promises[id]; p != nil && p.State == 1 && p.Timeout <= w.Clock {
					overdue[id] = true
				}
			}
		}
		if M == nil {
			M, m = map[string]int64{}, map[string]int64{}
			for k, v := range now {
				M[k] = v
			}
		}
		for k, sid := range M {
			// the same incarnation: an item deleted and created again under its id is a new item
			if v, ok := now[k]; !ok || v != sid {
				delete(M, k)
			}
		}
		for k, v := range now {
			m[k] = v
		}
		var ids []string
		var sortIds []int64
		var cursorTok string
		hasCursor := false
		if j.Q.sched {
			for _, s := range r.Res.SearchSchedules.Schedules {
				ids = append(ids, s.Id)
				sortIds = append(sortIds, s.SortId)
			}
			if c := r.Res.SearchSchedules.Cursor; c != nil {
				hasCursor = true
				cursorTok, _ = c.Encode()
			}
		} else {
			for _, p := range r.Res.SearchPromises.Promises {
				ids = append(ids, p.Id)
				sortIds = append(sortIds, p.SortId)
				if p.State == promise.Pending && p.Timeout <= r.SubmitClock {
					w.Violate("C14:overdue-reported-pending", "search reports %q pending at clock %d although its timeout %d has passed", p.Id, r.SubmitClock, p.Timeout)
				}
				ObservePromise(w, "C14", "search-page", p)
			}
			if c := r.Res.SearchPromises.Cursor; c != nil {
				hasCursor = true
				cursorTok, _ = c.Encode()
			}
		}
		if len(ids) > j.Q.limit {
			w.Violate("C14:page-too-large", "page of %d with limit %d", len(ids), j.Q.limit)
		}
		if hasCursor != (len(ids) == j.Q.limit) {
			w.Violate("C14:cursor-iff-full-page", "page has %d of %d items but cursor present=%v", len(ids), j.Q.limit, hasCursor)
		}
		for i, id := range ids {
			if returned[id] {
				w.Violate("C14:returned-twice", "%q returned twice in one traversal of %s", id, j.Q)
			}
			returned[id] = true
			// sort ids are not exported by the response objects of promises built from
			// records; take them from the dump
			sid := sortIds[i]
			if j.Q.sched {
				if s := w.Dump().Schedules[id]; s != nil {
					sid = s.SortId
				}
			} else if p := w.Dump().Promises[id]; p != nil {
				sid = p.SortId
			}
			order = append(order, sid)
			if _, ok := now[id]; !ok {
				w.Violate("C14:returned-non-matching", "%q does not match %s at the time of its page", id, j.Q)
			}
		}
		if !hasCursor {
			break
		}
		// a tampered token must be refused
		bad := cursorTok[:len(cursorTok)-2] + "xx"
		if j.Q.sched {
			if _, e := helper.SearchSchedules("", nil, 0, bad); e == nil {
				w.Violate("C14:forged-cursor-accepted", "a cursor with a broken signature was accepted")
			}
		} else if _, e := helper.SearchPromises("", "", nil, 0, bad); e == nil {
			w.Violate("C14:forged-cursor-accepted", "a cursor with a broken signature was accepted")
		}
		token = cursorTok
	}
	for i := 1; i < len(order); i++ {
		if order[i] >= order[i-1] {
			w.Violate("C14:not-newest-first", "traversal of %s is not strictly newest-first: sort ids %v", j.Q, order)
			break
		}
	}
	for id := range M {
		if !returned[id] {
			if p := w.Dump().Promises[id]; !j.Q.sched && p != nil && overdue[id] && j.Q.state != "" && j.Q.state != "pending" {
				w.Violate("C14:overdue-promise-invisible-to-state-filter:"+j.Q.state, "%q was pending in the store but overdue (timeout %d) while pages were served: it counts as timed out for every observer, yet the search with state filter %q never returned it (the SQL filter looks at the stored state; only promises already on a page are timed out lazily)", id, p.Timeout, j.Q.state)
				continue
			}
			w.Violate("C14:matching-item-missed", "%q matched %s during the whole traversal but was never returned (returned %v)", id, j.Q, keysOf(returned))
		}
	}
	for id := range returned {
		if _, ok := m[id]; !ok {
			w.Violate("C14:returned-never-matching", "%q was returned but never matched %s", id, j.Q)
		}
	}
	outcome = fmt.Sprint(keysOf(returned), order)
	return
}

func keysOf(m map[string]bool) []string {
	ks := []string{}
	for k := range m {
		ks = append(ks, k)
	}
	sort.Strings(ks)
	return ks
}

func (j *C14Job) Run(deadline time.Time) *runner.JobResult {
	res := &runner.JobResult{Name: j.Name(), Counters: map[string]int64{}}
	var img *world.Image
	var imgClock int64
	outcomes := map[string]bool{}
	seen := map[string]bool{}
	ex := &vx.Explorer{Bound: -1, Prune: false, Stop: func() bool { return !deadline.IsZero() && time.Now().After(deadline) }}
	ex.Explore(func(ch *vx.Chooser) bool {
		runner.Trace(fmt.Sprintf("JOB %s PREFIX %v", j.Name(), ch.Prefix()))
		viol, labels, choices, outcome := j.runOnce(ch, &img, &imgClock)
		outcomes[h8(outcome)] = true
		if len(res.Samples) < 1 && len(labels) > 1 {
			res.Samples = append(res.Samples, map[string]any{"query": j.Q.String(), "mutations_between_pages": labels})
		}
		for _, v := range viol {
			if seen[v.Sig] {
				continue
			}
			seen[v.Sig] = true
			rv := runner.Violation{Sig: v.Sig, Msg: v.Msg, Job: j.Name(), Replay: map[string]any{"job": j.Name(), "choices": choices, "labels": labels}}
			vv, _, _, _ := j.runOnce(vx.NewChooser(choices), &img, &imgClock)
			found := false
			for _, x := range vv {
				if x.Sig == v.Sig {
					found = true
				}
			}
			rv.Flaky = !found
			res.Violations = append(res.Violations, rv)
		}
		return len(seen) < 3
	})
	res.Executions, res.Transitions, res.MaxDepth, res.Capped = ex.Stats.Executions, ex.Stats.Transitions, ex.Stats.MaxDepth, ex.Stats.Capped
	res.States = int64(len(outcomes))
	for o := range outcomes {
		res.Outcomes = append(res.Outcomes, o)
	}
	sort.Strings(res.Outcomes)
	return res
}

func c14Jobs(tier string) []runner.Job {
	var jobs []runner.Job
	tagsets := []map[string]string{nil, {"x": "1"}, {"y": "2"}, {"x": "1", "y": "2"}}
	limits := []int{1, 2, 3, 100}
	for _, pat := range []string{"*", "a*", "*a", "*b*", "ab"} {
		for _, st := range []string{"", "pending", "resolved", "rejected"} {
			for _, tg := range tagsets {
				for _, lim := range limits {
					if tier != "thorough" && len(tg) == 2 && lim > 2 {
						continue
					}
					jobs = append(jobs, &C14Job{Q: c14Query{pat: pat, state: st, tags: tg, limit: lim}, Muts: tierInt(tier, 3, 4), Clock0: 0})
				}
			}
		}
		for _, tg := range tagsets[:3] {
			for _, lim := range limits {
				muts := tierInt(tier, 2, 3)
				if lim == 1 && tg == nil {
					muts = 3 // delete the two newest, re-create one of them
				}
				jobs = append(jobs, &C14Job{Q: c14Query{pat: pat, tags: tg, limit: lim, sched: true}, Muts: muts, Clock0: 0})
			}
		}
	}
	// the largest page sizes: 101 matching promises, page size 99, 100 and the default
	jobs = append(jobs,
		&C14Job{Q: c14Query{pat: "n*", limit: 99}, Extra: 101},
		&C14Job{Q: c14Query{pat: "n*", limit: 100}, Extra: 101},
		&C14Job{Q: c14Query{pat: "n*", limit: 100}, Extra: 101, DefaultLimit: true},
		&C14Job{Q: c14Query{pat: "n*", state: "pending", limit: 100}, Extra: 100})
	return jobs
}

func init() {
	Registry["C14"] = func() *runner.Spec {
		return &runner.Spec{
			Property: "C14", Engine: "kexplore", Level: "model_checking",
			Jobs: c14Jobs,
			Rule:   "population of 5 promises (ids a, ab, abc, b/a, ba; all five states incl. one that becomes overdue; tags x=1 / y=2 subsets) and 4 schedules; every query {*, a*, *a, *b*, exact} x state filter {none, pending, resolved, rejected} x tag subset x page size {1,2,3,100}, plus 101 further promises traversed with page size 99, 100 and the default; complete cursor traversals through the real api helper and cursor codec with <=3 (4 thorough) mutations {create matching/non-matching, complete, clock past a timeout, time-out sweep, delete schedule} placed before any page; oracle: always-matching subset of returned subset of sometime-matching, no id twice, strictly newest-first, page <= limit, cursor iff full page, overdue never pending, forged cursor refused; distinct = distinct (returned set, order) per query",
			Assume: append([]string{"'matches the id pattern' = glob with * on lowercase ids without LIKE metacharacters (the property does not define matching beyond that)"}, engineAAssume...),
			QuickS: 120, ThoroughS: 1200,
		}
	}
}
