package props

import (
	"os"
	"math/bits"
	"fmt"
	"sort"
	"strings"
	"time"

	"github.com/resonatehq/resonate/internal/verif/runner"
	"github.com/resonatehq/resonate/internal/verif/vx"
	"github.com/resonatehq/resonate/internal/verif/world"
	"github.com/resonatehq/resonate/pkg/promise"
)

// ---------------------------------------------------------------------------
// C02 — linearizability, decided differentially: the reference "single-threaded
// server" is the same code explored under request-atomic schedules.
// ---------------------------------------------------------------------------

// c02Trace records the order of submissions and responses with their clocks; it is
// part of the state key, so executions that differ in real-time order are not merged.
type c02Trace struct {
	world.BaseMonitor
	ev []string
}

func (m *c02Trace) OnStart(w *world.World)               { m.ev = nil }
func (m *c02Trace) OnSubmit(w *world.World, r *world.Req) {
	if r.Client == 8 || r.Client == 9 {
		return
	}
	m.ev = append(m.ev, fmt.Sprintf("S%s@%d", r.Id, w.Clock))
}
func (m *c02Trace) OnResponse(w *world.World, r *world.Req) {
	if r.Client == 8 || r.Client == 9 {
		return
	}
	m.ev = append(m.ev, fmt.Sprintf("R%s@%d", r.Id, w.Clock))
}
func (m *c02Trace) Key() string { return strings.Join(m.ev, ";") }

type c02Ref struct {
	order    []string
	instants map[string]int64
	resp     map[string]string // request id (incl. epilogue) -> rendered response
	members  map[string]bool   // concurrent requests that were executed in this reference run
}

type C02Job struct {
	Sc *Scenario
}

func (j *C02Job) Name() string { return j.Sc.Name }

func responseMap(r *ExecResult) (map[string]string, []*world.Req) {
	out := map[string]string{}
	var reqs []*world.Req
	for _, q := range r.Reqs {
		if q.Client == 9 {
			continue
		}
		reqs = append(reqs, q)
		if q.Lost {
			out[q.Id] = "LOST"
		} else {
			out[q.Id] = world.RenderResponse(q)
		}
	}
	sort.Slice(reqs, func(a, b int) bool { return reqs[a].Id < reqs[b].Id })
	return out, reqs
}

func renderMap(m map[string]string) string {
	ks := make([]string, 0, len(m))
	for k := range m {
		ks = append(ks, k)
	}
	sort.Strings(ks)
	var b strings.Builder
	for _, k := range ks {
		fmt.Fprintf(&b, "%s=%s;", k, m[k])
	}
	return b.String()
}

func failed(q *world.Req) bool { return q.Lost || q.Err != nil || !q.Done }

func (j *C02Job) Run(deadline time.Time) *runner.JobResult {
	res := &runner.JobResult{Name: j.Sc.Name, Counters: map[string]int64{}}
	stop := func() bool { return !deadline.IsZero() && time.Now().After(deadline) }

	// phase 1: the reference set. FAULT-FREE request-atomic schedules of every subset of
	// the concurrent requests: a request that failed in a concurrent run may or may not
	// have taken effect, a request that did not fail must be answered exactly as some
	// failure-free one-at-a-time execution answers it.
	var refs []c02Ref
	nc := len(j.Sc.Clients)
	for mask := 0; mask < 1<<nc; mask++ {
		ref := *j.Sc
		ref.snaps, ref.snap = nil, nil
		ref.AtomicRequests, ref.KeyResponses, ref.Faults, ref.Crashes = true, true, 0, 0
		// experiment switch, not part of the registered check (DESIGN 4/C02 limits): with sweeps atomic in the
		// reference, a heartbeat landing between the lease sweep's read and write at the very instant
		// the lease ends is reported as not linearizable on the unchanged tree
		ref.AtomicSweeps = os.Getenv("VERIF_C02_ATOMIC_SWEEPS") != ""
		ref.Clients = make([][]ReqF, nc)
		for c := 0; c < nc; c++ {
			if mask&(1<<c) != 0 {
				ref.Clients[c] = j.Sc.Clients[c]
			}
		}
		ref.Monitors = func() []world.Monitor { return []world.Monitor{&c02Trace{}} }
		ex1 := &vx.Explorer{Bound: -1, Prune: true, Stop: stop}
		bad := false
		ex1.Explore(func(ch *vx.Chooser) bool {
			runner.Trace(fmt.Sprintf("JOB %s REF %d PREFIX %v", j.Sc.Name, mask, ch.Prefix()))
			r := ref.RunOnce(ch, false)
			if r.Cut {
				return true
			}
			if len(r.Viol) > 0 {
				for _, v := range r.Viol {
					res.Violations = append(res.Violations, runner.Violation{Sig: "C02:reference-run:" + v.Sig, Msg: v.Msg, Job: j.Sc.Name, Replay: map[string]any{"scenario": j.Sc.Name, "phase": "reference", "choices": r.Choices, "labels": r.Labels}})
				}
				bad = true
				return false
			}
			m, reqs := responseMap(r)
			rf := c02Ref{instants: map[string]int64{}, resp: m, members: map[string]bool{}}
			sort.Slice(reqs, func(a, b int) bool { return reqs[a].SubmitStep < reqs[b].SubmitStep })
			for _, q := range reqs {
				if q.Client == 8 {
					continue
				}
				rf.order = append(rf.order, q.Id)
				rf.instants[q.Id] = q.SubmitClock
				rf.members[q.Id] = true
			}
			refs = append(refs, rf)
			return true
		})
		res.Counters["reference_executions"] += ex1.Stats.Executions
		res.Executions += ex1.Stats.Executions
		res.States += ex1.Stats.States
		res.Transitions += ex1.Stats.Transitions
		if ex1.Stats.Capped || bad {
			res.Capped = ex1.Stats.Capped
			return res
		}
	}
	res.Counters["reference_runs"] = int64(len(refs))

	// phase 2: every concurrent schedule (with failures) must be explained by a reference run
	conc := *j.Sc
	conc.snaps, conc.snap = nil, nil
	conc.AtomicRequests, conc.KeyResponses = false, true
	conc.Monitors = func() []world.Monitor { return []world.Monitor{&c02Trace{}} }
	outcomes := map[string]bool{}
	reported := map[string]bool{}
	ex2 := &vx.Explorer{Bound: j.Sc.Bound, Prune: true, Stop: stop}
	ex2.Explore(func(ch *vx.Chooser) bool {
		runner.Trace(fmt.Sprintf("JOB %s PREFIX %v", j.Sc.Name, ch.Prefix()))
		r := conc.RunOnce(ch, false)
		if r.Cut {
			return true
		}
		if len(r.Viol) > 0 {
			for _, v := range r.Viol {
				res.Violations = append(res.Violations, runner.Violation{Sig: "C02:" + v.Sig, Msg: v.Msg, Job: j.Sc.Name, Replay: map[string]any{"scenario": j.Sc.Name, "choices": r.Choices, "labels": r.Labels}})
			}
			return false
		}
		m, reqs := responseMap(r)
		v := renderMap(m)
		outcomes[h8(v)] = true
		if len(res.Samples) < 1 {
			res.Samples = append(res.Samples, map[string]any{"schedule": r.Labels, "responses": v})
		}
		if explained(refs, m, reqs) {
			return true
		}
		// the signature names a smallest set of answers that no reference explains when the
		// answers of all other requests are disregarded (their effects stay possible): the
		// same anomaly then has the same signature whatever else ran next to it
		var cl []*world.Req
		for _, q := range reqs {
			if q.Client != 8 && !failed(q) {
				cl = append(cl, q)
			}
		}
		core := cl
		for size := 1; size < len(cl) && len(core) == len(cl); size++ {
			for mask := 0; mask < 1<<len(cl); mask++ {
				if bits.OnesCount(uint(mask)) != size {
					continue
				}
				ign := map[string]bool{}
				var k []*world.Req
				for i, q := range cl {
					if mask&(1<<i) != 0 {
						k = append(k, q)
					} else {
						ign[q.Id] = true
					}
				}
				if !explainedIgnoring(refs, m, reqs, ign) {
					core = k
					break
				}
			}
		}
		kinds := []string{}
		for _, q := range reqs {
			if q.Client != 8 {
				in := failed(q)
				for _, c := range core {
					if c == q {
						in = true
					}
				}
				if in {
					kinds = append(kinds, fmt.Sprintf("%s:%d%s", q.Req.Kind, q.Status(), c02Qualifier(q)))
				}
			}
		}
		sig := "C02:not-linearizable:" + strings.Join(kinds, ",")
		if !reported[sig] && len(reported) < 6 {
			reported[sig] = true
			rv := runner.Violation{Sig: sig, Job: j.Sc.Name,
				Msg: fmt.Sprintf("no failure-free one-at-a-time execution of (a subset containing every request that did not fail of) the same requests gives these responses in an order / at instants compatible with this schedule\nresponses: %s\nschedule:\n  %s", v, strings.Join(r.Labels, "\n  "))}
			for k := 0; k < 5; k++ {
				rr := conc.RunOnce(vx.NewChooser(r.Choices), true)
				m2, _ := responseMap(rr)
				if renderMap(m2) != v {
					rv.Flaky = true
				}
				rv.Replay = map[string]any{"scenario": j.Sc.Name, "choices": r.Choices, "labels": r.Labels, "log": rr.Log}
			}
			res.Violations = append(res.Violations, rv)
		}
		return true
	})
	res.Executions += ex2.Stats.Executions
	res.States += ex2.Stats.States
	res.Transitions += ex2.Stats.Transitions
	res.Cut = ex2.Stats.Cut
	res.MaxDepth = ex2.Stats.MaxDepth
	res.Capped = ex2.Stats.Capped
	for o := range outcomes {
		res.Outcomes = append(res.Outcomes, o)
	}
	sort.Strings(res.Outcomes)
	return res
}

// explained: some failure-free reference run (over a subset of the requests that
// contains every request that did not fail) answers every non-failed request and the
// epilogue identically, in an order consistent with the real-time precedence of the
// concurrent run and at an instant inside every request's interval.
func explained(refs []c02Ref, m map[string]string, reqs []*world.Req) bool {
	return explainedIgnoring(refs, m, reqs, nil)
}

// explainedIgnoring: as explained, with the answers of the requests in ignore disregarded
// (they are treated like failed requests: they may or may not have taken effect).
func explainedIgnoring(refs []c02Ref, m map[string]string, reqs []*world.Req, ignore map[string]bool) bool {
	for _, rf := range refs {
		pos := map[string]int{}
		for i, id := range rf.order {
			pos[id] = i
		}
		ok := true
		for _, a := range reqs {
			if a.Client == 8 {
				if rf.resp[a.Id] != m[a.Id] {
					ok = false
				}
				continue
			}
			if failed(a) || ignore[a.Id] {
				continue // may or may not have taken effect; its own answer is an error (or disregarded)
			}
			if !rf.members[a.Id] || rf.resp[a.Id] != m[a.Id] {
				ok = false
				break
			}
		}
		if !ok {
			continue
		}
		for _, a := range reqs {
			if a.Client == 8 || !rf.members[a.Id] {
				continue
			}
			t := rf.instants[a.Id]
			end := a.ResClock
			if !a.Done {
				end = 1 << 62
			}
			if t < a.SubmitClock || t > end {
				ok = false
				break
			}
			for _, b := range reqs {
				if b.Client == 8 || a == b || !rf.members[b.Id] {
					continue
				}
				if a.Done && a.ResStep < b.SubmitStep && pos[a.Id] > pos[b.Id] {
					ok = false
				}
			}
		}
		if ok {
			return true
		}
	}
	return false
}

func c02Epilogue(w *world.World) {
	i := 0
	for _, id := range []string{"p", "r"} {
		w.Do(8, i, ReadP(id).F())
		i++
	}
	w.Do(8, i, SearchP("*", AllStates, nil, 10, nil).F())
	i++
	w.Do(8, i, ReadS("s").F())
	i++
	// tasks and locks are observable through requests that do not change them when refused
	w.Do(8, i, CompleteT("__invoke:p", 99).F())
	i++
	w.Do(8, i, CompleteT("__resume:r:p", 99).F())
	i++
	w.Do(8, i, AcquireL("r1", "probe", "probe", 0).F())
	i++
	// who holds a task is observable through the heartbeat of each worker
	w.Do(8, i, HeartbeatT("w1").F())
	i++
	w.Do(8, i, HeartbeatT("w2").F())
}

func C02Scenarios(tier string) []*Scenario {
	var out []*Scenario
	families := map[string][]ReqF{
		"promise": {
			CreateP("p", "a", false, 10, routedTags, "x"), CreateP("p", "b", true, 10, nil, "y"),
			CompleteP("p", promise.Resolved, "a", false, "v1"), CompleteP("p", promise.Rejected, "a", true, "v2"),
			ReadP("p"), SearchP("*", []promise.State{promise.Pending, promise.Timedout}, nil, 10, nil),
			Callback("r", "p", 100, recvPoll), Subscribe("s1", "p", 100, recvPoll),
		},
		"task": {
			ClaimT("__invoke:p", 1, "w1", 5), ClaimT("__invoke:p", 1, "w2", 0), ClaimT("__invoke:p", 2, "w2", 5),
			CompleteT("__invoke:p", 1), HeartbeatT("w1"), CompleteP("p", promise.Resolved, "", false, "v"), CompleteT("__invoke:p", 2),
		},
		"lock": {
			AcquireL("r1", "e1", "p1", 5), AcquireL("r1", "e2", "p2", 5), AcquireL("r1", "e1", "p2", 0),
			ReleaseL("r1", "e1"), ReleaseL("r1", "e2"), HeartbeatL("p1"),
		},
		"schedule": {
			CreateS("s", everySecond, "{{.id}}.{{.timestamp}}", 500, "k", nil), CreateS("s", every2Seconds, "o", 5, "k2", nil),
			ReadS("s"), DeleteS("s"), SearchS("*", nil, 10, nil), CreateP("s.1000", "", false, 5000, nil, "u"),
		},
	}
	setups := map[string][]setupF{
		"promise": {
			{"absent", func(w *world.World) { w.Do(9, 0, CreateP("r", "", false, 1000, nil, "root").F()) }},
			{"pending", func(w *world.World) {
				w.Do(9, 0, CreateP("r", "", false, 1000, nil, "root").F())
				w.Do(9, 1, CreateP("p", "a", false, 10, routedTags, "x").F())
			}},
		},
		"task": {
			{"init", func(w *world.World) { w.Do(9, 0, CreateP("p", "", false, 100, routedTags, "x").F()) }},
			{"claimed", func(w *world.World) {
				w.Do(9, 0, CreateP("p", "", false, 100, routedTags, "x").F())
				w.Do(9, 1, ClaimT("__invoke:p", 1, "w1", 5).F())
			}},
			// dispatched and waiting to be claimed: the claim window lapses with the clock step
			{"enqueued", func(w *world.World) {
				w.Do(9, 0, CreateP("p", "", false, 100, routedTags, "x").F())
				w.Sweep("EnqueueTasks")
			}},
		},
		"lock": {
			{"free", nil},
			{"held", func(w *world.World) { w.Do(9, 0, AcquireL("r1", "e1", "p1", 5).F()) }},
		},
		"schedule": {
			{"absent", nil},
			{"exists", func(w *world.World) {
				w.Do(9, 0, CreateS("s", everySecond, "{{.id}}.{{.timestamp}}", 500, "k", nil).F())
			}},
		},
	}
	sweeps := map[string]map[string]int{
		"promise": {"TimeoutPromises": 1}, "task": {"TimeoutTasks": 1}, "lock": {"TimeoutLocks": 1}, "schedule": {"SchedulePromises": 1},
	}
	clock0 := map[string]int64{"promise": 9, "task": 4, "lock": 4, "schedule": 999}
	menu := map[string][]int64{"promise": {10}, "task": {5}, "lock": {5}, "schedule": {1000}}
	fams := []string{"promise", "task", "lock", "schedule"}
	for _, fam := range fams {
		alpha := families[fam]
		for _, su := range setups[fam] {
			add := func(name string, clients [][]ReqF, faults int) {
				cfg := world.DefaultConfig()
				if fam == "task" {
					cfg = taskCfg()
				}
				sc := &Scenario{
					Name: fmt.Sprintf("C02/%s/%s/%s", fam, su.name, name), Cfg: cfg, Clock0: 0, Setup: su.f,
					Clients: clients, Sweeps: sweeps[fam], ClockMenu: menu[fam], Faults: faults,
					Epilogue: c02Epilogue, Bound: -1, ClockWhenIdle: true,
				}
				c0 := clock0[fam]
				inner := su.f
				sc.Setup = func(w *world.World) {
					if inner != nil {
						inner(w)
					}
					w.SetClock(c0)
				}
				out = append(out, sc)
			}
			for i := 0; i < len(alpha); i++ {
				for j := i; j < len(alpha); j++ {
					add(alpha[i].Label+"|"+alpha[j].Label, [][]ReqF{{alpha[i]}, {alpha[j]}}, 1)
					if tier == "thorough" {
						for k := j; k < len(alpha); k++ {
							add(alpha[i].Label+"|"+alpha[j].Label+"|"+alpha[k].Label, [][]ReqF{{alpha[i]}, {alpha[j]}, {alpha[k]}}, 0)
						}
					}
				}
			}
			if tier != "thorough" {
				// a selection of triples in the quick tier
				for i := 0; i+2 < len(alpha); i += 2 {
					add(alpha[i].Label+"|"+alpha[i+1].Label+"|"+alpha[i+2].Label, [][]ReqF{{alpha[i]}, {alpha[i+1]}, {alpha[i+2]}}, 0)
				}
			}
		}
	}
	return out
}

func init() {
	Registry["C02"] = func() *runner.Spec {
		return &runner.Spec{
			Property: "C02", Engine: "kexplore", Level: "model_checking",
			Jobs: func(tier string) []runner.Job {
				var jobs []runner.Job
				for _, sc := range C02Scenarios(tier) {
					jobs = append(jobs, &C02Job{Sc: sc})
				}
				return jobs
			},
			Rule:   "per scenario (2 concurrent requests and selected triples in quick, all triples in thorough, over promise / task / lock / schedule families on shared ids, from 2 setup states each, with the family's background sweep, one clock step onto the deadline / lease end and one injected failure): first ALL failure-free request-atomic schedules of the real code, for every subset of the requests, give the reference set of (order, instants, responses incl. a read-back epilogue); then EVERY concurrent schedule (with the failure) must be explained by a reference element that contains every request that did not fail, with the same responses for them and for the epilogue, an order consistent with real-time precedence and instants inside the request intervals; distinct = distinct response vectors per scenario",
			Assume: append([]string{"the reference is the same code run request-atomically: a defect that is also present in sequential execution is invisible here (C01, C03-C10 have explicit oracles for that)"}, engineAAssume...),
			QuickS: 150, ThoroughS: 2400,
		}
	}
}

// c02Qualifier: what makes an acknowledged claim special in a signature, so that one
// listed anomaly does not stand for every anomaly whose core is a claim.
func c02Qualifier(q *world.Req) string {
	if q.Res != nil && q.Res.ClaimTask != nil && q.Res.ClaimTask.RootPromise != nil {
		return "(root-promise=" + strings.ToLower(q.Res.ClaimTask.RootPromise.State.String()) + ")"
	}
	return ""
}
