package props

import (
	"os"
	"sync"
	"crypto/sha256"
	"encoding/hex"
	"fmt"
	"sort"
	"strings"
	"time"

	"github.com/resonatehq/resonate/internal/verif/runner"
	"github.com/resonatehq/resonate/internal/verif/vx"
	"github.com/resonatehq/resonate/internal/verif/world"
)

// ScenarioJob explores one scenario exhaustively (within its bound).
type ScenarioJob struct {
	Sc *Scenario
	// OnExec lets a property collect per-execution data (e.g. C02's outcome sets).
	OnExec func(r *ExecResult)
	// Finish may add violations/notes after the exploration (same process).
	Finish func(res *runner.JobResult)
}

func (j *ScenarioJob) Name() string { return j.Sc.Name }

func h8(s string) string {
	h := sha256.Sum256([]byte(s))
	return hex.EncodeToString(h[:8])
}

func tailS(l []string, n int) []string {
	if len(l) > n {
		return l[len(l)-n:]
	}
	return l
}

func firstDiff(a, b string) string {
	n := len(a)
	if len(b) < n {
		n = len(b)
	}
	i := 0
	for i < n && a[i] == b[i] {
		i++
	}
	lo, hiA, hiB := i-80, i+120, i+120
	if lo < 0 {
		lo = 0
	}
	if hiA > len(a) {
		hiA = len(a)
	}
	if hiB > len(b) {
		hiB = len(b)
	}
	return fmt.Sprintf("first difference at %d: %q vs %q", i, a[lo:hiA], b[lo:hiB])
}

func sigs(r *ExecResult) string {
	s := []string{}
	for _, v := range r.Viol {
		s = append(s, v.Sig)
	}
	sort.Strings(s)
	return strings.Join(s, ",")
}

func (j *ScenarioJob) Run(deadline time.Time) *runner.JobResult {
	sc := j.Sc
	res := &runner.JobResult{Name: sc.Name, Counters: map[string]int64{}}

	// determinism self-test: the default schedule twice, identical observations
	// (the first run also produces the setup snapshot; its outcome must equal that of
	// the runs that start from the snapshot)
	a0 := sc.RunOnce(vx.NewChooser(nil), true)
	a := sc.RunOnce(vx.NewChooser(a0.Choices), true)
	b := sc.RunOnce(vx.NewChooser(a.Choices), true)
	for _, r := range []*ExecResult{a0, a, b} {
		for _, v := range r.Viol {
			if v.Sig == "restart-changed-database" {
				// not a harness problem: starting the server on the stored database altered it
				res.Violations = append(res.Violations, runner.Violation{Sig: v.Sig, Msg: v.Msg, Job: sc.Name, Replay: map[string]any{"job": sc.Name, "choices": r.Choices}})
				return res
			}
		}
	}
	if a0.Outcome != a.Outcome || sigs(a0) != sigs(a) {
		res.HarnessErr = "setup snapshot self-test failed: running the setup and restoring its snapshot differ: " + firstDiff(a0.Outcome, a.Outcome) + " | " + sigs(a0) + " vs " + sigs(a) + fmt.Sprintf(" | log lines %d vs %d; tails: %v ||| %v", len(a0.Log), len(a.Log), tailS(a0.Log, 6), tailS(a.Log, 6))
		return res
	}
	if a.Outcome != b.Outcome || strings.Join(a.Labels, "\n") != strings.Join(b.Labels, "\n") || sigs(a) != sigs(b) || strings.Join(a.Log, "\n") != strings.Join(b.Log, "\n") {
		res.HarnessErr = "determinism self-test failed: the same schedule produced different observations"
		return res
	}

	outcomes := map[string]bool{}
	seenSig := map[string]bool{}
	ex := &vx.Explorer{Bound: sc.Bound, Prune: !sc.NoPrune, Workers: sc.Par, Stop: func() bool { return !deadline.IsZero() && time.Now().After(deadline) }}
	var mu sync.Mutex
	ex.Explore(func(ch *vx.Chooser) bool {
		if sc.Par <= 1 {
			runner.Trace(fmt.Sprintf("JOB %s PREFIX %v", sc.Name, ch.Prefix()))
		}
		r := sc.RunOnce(ch, false)
		mu.Lock()
		defer mu.Unlock()
		if j.OnExec != nil {
			j.OnExec(r)
		}
		if !r.Cut && !sc.unknownViolationIn(r.Viol) {
			outcomes[h8(r.Outcome)] = true
			if len(res.Samples) < 2 {
				res.Samples = append(res.Samples, map[string]any{"schedule": r.Labels})
			}
		}
		for _, v := range r.Viol {
			if seenSig[v.Sig] {
				continue
			}
			seenSig[v.Sig] = true
			rv := runner.Violation{Sig: v.Sig, Msg: v.Msg, Job: sc.Name}
			// confirm: the same choice list must fail the same way every time
			var logs []string
			for k := 0; k < 5; k++ {
				rr := sc.RunOnce(vx.NewChooser(r.Choices), true)
				found := false
				for _, vv := range rr.Viol {
					if vv.Sig == v.Sig {
						found = true
					}
				}
				if !found {
					rv.Flaky = true
				}
				logs = rr.Log
			}
			rv.Replay = map[string]any{"scenario": sc.Name, "choices": r.Choices, "labels": r.Labels, "log": logs}
			res.Violations = append(res.Violations, rv)
		}
		return len(seenSig) < 4
	})
	res.Executions = ex.Stats.Executions
	res.States = ex.Stats.States
	res.Transitions = ex.Stats.Transitions
	res.Cut = ex.Stats.Cut
	res.MaxDepth = ex.Stats.MaxDepth
	res.Capped = ex.Stats.Capped
	for o := range outcomes {
		res.Outcomes = append(res.Outcomes, o)
	}
	sort.Strings(res.Outcomes)
	if j.Finish != nil {
		j.Finish(res)
	}
	return res
}

func (sc *Scenario) unknownViolationIn(vs []world.Violation) bool {
	for _, v := range vs {
		if !sc.Known[v.Sig] {
			return true
		}
	}
	return false
}

// ReplayScenario re-runs one recorded choice list and prints what happened.
func ReplayScenario(scs []*Scenario, name string, choices []int) int {
	for _, sc := range scs {
		if sc.Name != name {
			continue
		}
		if os.Getenv("VERIF_REPLAY_FROM_SNAPSHOT") != "" {
			sc.RunOnce(vx.NewChooser(choices), false) // produces the setup snapshot
		}
		r := sc.RunOnce(vx.NewChooser(choices), true)
		for _, l := range r.Log {
			fmt.Println(l)
		}
		for _, v := range r.Viol {
			fmt.Printf("VIOLATED %s: %s\n", v.Sig, v.Msg)
		}
		if len(r.Viol) > 0 {
			return 1
		}
		fmt.Println("no violation on this schedule")
		return 0
	}
	fmt.Println("scenario not found:", name)
	return 2
}
