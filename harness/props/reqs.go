package props

import (
	"encoding/json"

	"github.com/resonatehq/resonate/internal/kernel/t_api"
	"github.com/resonatehq/resonate/pkg/idempotency"
	"github.com/resonatehq/resonate/pkg/promise"
)

// ReqF builds a fresh request (coroutines mutate their request, so every
// execution needs its own copy).
type ReqF struct {
	Label string
	F     func() *t_api.Request
}

func key(k string) *idempotency.Key {
	if k == "" {
		return nil
	}
	v := idempotency.Key(k)
	return &v
}

func cpTags(m map[string]string) map[string]string {
	if m == nil {
		return nil
	}
	o := map[string]string{}
	for k, v := range m {
		o[k] = v
	}
	return o
}

func onOff(b bool) string {
	if b {
		return "!"
	}
	return ""
}

func CreateP(id, k string, strict bool, timeout int64, tags map[string]string, data string) ReqF {
	return ReqF{"create(" + id + ",k=" + k + onOff(strict) + ")", func() *t_api.Request {
		return &t_api.Request{Kind: t_api.CreatePromise, CreatePromise: &t_api.CreatePromiseRequest{
			Id: id, IdempotencyKey: key(k), Strict: strict, Timeout: timeout, Tags: cpTags(tags),
			Param: promise.Value{Headers: map[string]string{"h": data}, Data: []byte(data)},
		}}
	}}
}

func CreatePT(id, k string, strict bool, timeout int64, tags map[string]string, pid string, ttl int) ReqF {
	return ReqF{"createTask(" + id + ",k=" + k + onOff(strict) + ")", func() *t_api.Request {
		return &t_api.Request{Kind: t_api.CreatePromiseAndTask, CreatePromiseAndTask: &t_api.CreatePromiseAndTaskRequest{
			Promise: &t_api.CreatePromiseRequest{Id: id, IdempotencyKey: key(k), Strict: strict, Timeout: timeout, Tags: cpTags(tags),
				Param: promise.Value{Data: []byte("pt")}},
			Task: &t_api.CreateTaskRequest{PromiseId: id, ProcessId: pid, Ttl: ttl, Timeout: timeout},
		}}
	}}
}

func stName(s promise.State) string {
	switch s {
	case promise.Resolved:
		return "res"
	case promise.Rejected:
		return "rej"
	case promise.Canceled:
		return "can"
	}
	return "?"
}

func CompleteP(id string, st promise.State, k string, strict bool, data string) ReqF {
	return ReqF{"complete(" + id + "," + stName(st) + ",k=" + k + onOff(strict) + ")", func() *t_api.Request {
		return &t_api.Request{Kind: t_api.CompletePromise, CompletePromise: &t_api.CompletePromiseRequest{
			Id: id, IdempotencyKey: key(k), Strict: strict, State: st,
			Value: promise.Value{Headers: map[string]string{"v": data}, Data: []byte(data)},
		}}
	}}
}

func ReadP(id string) ReqF {
	return ReqF{"read(" + id + ")", func() *t_api.Request {
		return &t_api.Request{Kind: t_api.ReadPromise, ReadPromise: &t_api.ReadPromiseRequest{Id: id}}
	}}
}

var AllStates = []promise.State{promise.Pending, promise.Resolved, promise.Rejected, promise.Canceled, promise.Timedout}

func SearchP(pat string, states []promise.State, tags map[string]string, limit int, sortId *int64) ReqF {
	return ReqF{"search(" + pat + ")", func() *t_api.Request {
		st := append([]promise.State{}, states...)
		return &t_api.Request{Kind: t_api.SearchPromises, SearchPromises: &t_api.SearchPromisesRequest{Id: pat, States: st, Tags: cpTags(tags), Limit: limit, SortId: sortId}}
	}}
}

func Callback(root, leaf string, timeout int64, recv string) ReqF {
	return ReqF{"callback(" + root + "<-" + leaf + ")", func() *t_api.Request {
		return &t_api.Request{Kind: t_api.CreateCallback, CreateCallback: &t_api.CreateCallbackRequest{
			Id: "cb", PromiseId: leaf, RootPromiseId: root, Timeout: timeout, Recv: json.RawMessage(recv)}}
	}}
}

func Subscribe(id, pid string, timeout int64, recv string) ReqF {
	return ReqF{"subscribe(" + id + "@" + pid + ")", func() *t_api.Request {
		return &t_api.Request{Kind: t_api.CreateSubscription, CreateSubscription: &t_api.CreateSubscriptionRequest{
			Id: id, PromiseId: pid, Timeout: timeout, Recv: json.RawMessage(recv)}}
	}}
}

func ClaimT(id string, counter int, pid string, ttl int) ReqF {
	return ReqF{"claim(" + id + "," + itoa(counter) + "," + pid + ",ttl=" + itoa(ttl) + ")", func() *t_api.Request {
		return &t_api.Request{Kind: t_api.ClaimTask, ClaimTask: &t_api.ClaimTaskRequest{Id: id, Counter: counter, ProcessId: pid, Ttl: ttl}}
	}}
}

func CompleteT(id string, counter int) ReqF {
	return ReqF{"completeTask(" + id + "," + itoa(counter) + ")", func() *t_api.Request {
		return &t_api.Request{Kind: t_api.CompleteTask, CompleteTask: &t_api.CompleteTaskRequest{Id: id, Counter: counter}}
	}}
}

func HeartbeatT(pid string) ReqF {
	return ReqF{"heartbeatTasks(" + pid + ")", func() *t_api.Request {
		return &t_api.Request{Kind: t_api.HeartbeatTasks, HeartbeatTasks: &t_api.HeartbeatTasksRequest{ProcessId: pid}}
	}}
}

func AcquireL(res, exec, pid string, ttl int64) ReqF {
	return ReqF{"acquire(" + res + "," + exec + "," + pid + ",ttl=" + itoa(int(ttl)) + ")", func() *t_api.Request {
		return &t_api.Request{Kind: t_api.AcquireLock, AcquireLock: &t_api.AcquireLockRequest{ResourceId: res, ExecutionId: exec, ProcessId: pid, Ttl: ttl}}
	}}
}

func ReleaseL(res, exec string) ReqF {
	return ReqF{"release(" + res + "," + exec + ")", func() *t_api.Request {
		return &t_api.Request{Kind: t_api.ReleaseLock, ReleaseLock: &t_api.ReleaseLockRequest{ResourceId: res, ExecutionId: exec}}
	}}
}

func HeartbeatL(pid string) ReqF {
	return ReqF{"heartbeatLocks(" + pid + ")", func() *t_api.Request {
		return &t_api.Request{Kind: t_api.HeartbeatLocks, HeartbeatLocks: &t_api.HeartbeatLocksRequest{ProcessId: pid}}
	}}
}

func CreateS(id, cron, pidTmpl string, ptimeout int64, k string, ptags map[string]string) ReqF {
	return ReqF{"createSchedule(" + id + ",k=" + k + ")", func() *t_api.Request {
		return &t_api.Request{Kind: t_api.CreateSchedule, CreateSchedule: &t_api.CreateScheduleRequest{
			Id: id, Description: "d", Cron: cron, Tags: map[string]string{"st": "1"}, PromiseId: pidTmpl, PromiseTimeout: ptimeout,
			PromiseParam: promise.Value{Headers: map[string]string{"sh": "1"}, Data: []byte("sp")}, PromiseTags: cpTags(ptags), IdempotencyKey: key(k)}}
	}}
}

func ReadS(id string) ReqF {
	return ReqF{"readSchedule(" + id + ")", func() *t_api.Request {
		return &t_api.Request{Kind: t_api.ReadSchedule, ReadSchedule: &t_api.ReadScheduleRequest{Id: id}}
	}}
}

func DeleteS(id string) ReqF {
	return ReqF{"deleteSchedule(" + id + ")", func() *t_api.Request {
		return &t_api.Request{Kind: t_api.DeleteSchedule, DeleteSchedule: &t_api.DeleteScheduleRequest{Id: id}}
	}}
}

func SearchS(pat string, tags map[string]string, limit int, sortId *int64) ReqF {
	return ReqF{"searchSchedules(" + pat + ")", func() *t_api.Request {
		return &t_api.Request{Kind: t_api.SearchSchedules, SearchSchedules: &t_api.SearchSchedulesRequest{Id: pat, Tags: cpTags(tags), Limit: limit, SortId: sortId}}
	}}
}

func itoa(i int) string {
	b, _ := json.Marshal(i)
	return string(b)
}
