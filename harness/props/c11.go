package props

import (
	"fmt"
	"sort"
	"strings"
	"time"

	"github.com/resonatehq/resonate/internal/kernel/t_aio"
	"github.com/resonatehq/resonate/internal/verif/runner"
	"github.com/resonatehq/resonate/internal/verif/vx"
	"github.com/resonatehq/resonate/internal/verif/world"
	"github.com/resonatehq/resonate/pkg/promise"
)

// ---------------------------------------------------------------------------
// C11 — background processing converges for every batch / queue configuration.
// Here the kernel's own start logic (last, promise.Completed, gocoro.Add) runs
// UN-gated; the harness only advances the clock by SignalTimeout per cycle and
// decides the order and outcome of the sweeps' submissions.
// ---------------------------------------------------------------------------

type c11Cfg struct {
	batch   int // promise = schedule = task batch size (tied in quick, free in thorough)
	pbs, sbs, tbs int
	cms     int
	st      time.Duration
	ted     time.Duration
	cbs     int
}

func (c c11Cfg) String() string {
	return fmt.Sprintf("pbs=%d,sbs=%d,tbs=%d,cms=%d,signal=%s,enqueueDelay=%s,cbs=%d", c.pbs, c.sbs, c.tbs, c.cms, c.st, c.ted, c.cbs)
}

type C11Job struct {
	Cfg    c11Cfg
	Setup  setupF
	Faults int
	Bound  int
	Cycles int
}

func (j *C11Job) Name() string { return fmt.Sprintf("C11/%s/%s/faults=%d", j.Setup.name, j.Cfg, j.Faults) }

type sendCounter struct {
	world.BaseMonitor
	n      int
	swept  int // tasks written back by the TimeoutTasks sweep (reset or timed out)
}

func (s *sendCounter) OnCommit(w *world.World, e *world.CommitEvent) {
	if e.Err != nil {
		return
	}
	for i, o := range e.Owners {
		if strings.HasPrefix(o, "TimeoutTasks") && i < len(e.Subs) {
			for _, c := range e.Subs[i].Store.Transaction.Commands {
				if c.UpdateTask != nil {
					s.swept++
				}
			}
		}
	}
}

func (s *sendCounter) OnSend(w *world.World, e *world.SendEvent) {
	if e.Success && e.Err == nil {
		s.n++
	}
}

// obligation identity: what must change for progress to have been made
func obligations(d *world.Dump, t int64) map[string]string {
	out := map[string]string{}
	for _, u := range Unconverged(d, t) {
		out[u.kind+"|"+u.msg] = u.kind
	}
	return out
}

func obligationKeys(d *world.Dump, t int64) map[string]string {
	out := map[string]string{}
	for id, p := range d.Promises {
		if p.State == 1 && p.Timeout <= t {
			out["promise-overdue:"+id] = fmt.Sprintf("promise %q pending past its timeout %d", id, p.Timeout)
		}
	}
	for id, l := range d.Locks {
		if l.ExpiresAt <= t {
			out["lock-overdue:"+id] = fmt.Sprintf("lock %q held past its lease %d", id, l.ExpiresAt)
		}
	}
	for id, s := range d.Schedules {
		if s.NextRunTime <= t && nextRef(s.NextRunTime, s.Cron) > 0 {
			out[fmt.Sprintf("schedule-behind:%s@%d", id, s.NextRunTime)] = fmt.Sprintf("schedule %q has not fired occurrence %d", id, s.NextRunTime)
		}
	}
	for id, tk := range d.Tasks {
		switch tk.State {
		case 1:
			sibling := false
			for _, o := range d.Tasks {
				if o.RootPromiseId == tk.RootPromiseId && (o.State == 2 || o.State == 4) {
					sibling = true
				}
			}
			if !sibling {
				out[fmt.Sprintf("task-undispatched:%s/%d/%d", id, tk.Counter, tk.Attempt)] = fmt.Sprintf("task %q (counter %d, attempt %d) is dispatchable but not dispatched", id, tk.Counter, tk.Attempt)
			}
		case 2, 4:
			if tk.ExpiresAt <= t || tk.Timeout <= t {
				out[fmt.Sprintf("task-lease-overdue:%s/%d/%d", id, tk.Counter, tk.State)] = fmt.Sprintf("task %q (state %d, counter %d) is past its lease %d / timeout %d", id, tk.State, tk.Counter, tk.ExpiresAt, tk.Timeout)
			}
		}
	}
	return out
}

func (j *C11Job) worldCfg() world.Config {
	cfg := world.DefaultConfig()
	cfg.Gated = false
	cfg.System.PromiseBatchSize, cfg.System.ScheduleBatchSize, cfg.System.TaskBatchSize = j.Cfg.pbs, j.Cfg.sbs, j.Cfg.tbs
	cfg.System.CoroutineMaxSize = j.Cfg.cms
	cfg.System.SignalTimeout = j.Cfg.st
	cfg.System.TaskEnqueueDelay = j.Cfg.ted
	cfg.System.CompletionBatchSize = j.Cfg.cbs
	cfg.System.SubmissionBatchSize = j.Cfg.cbs
	return cfg
}

// one execution: N cycles; in every cycle the clock advances by SignalTimeout and the
// explorer picks the order (and failures) of whatever the sweeps submit.
func (j *C11Job) runOnce(ch *vx.Chooser, keepLog bool, img **world.Image, imgClock *int64) (viol []world.Violation, labels []string, choices []int, log []string, outcome string, cut bool) {
	cfg := j.worldCfg()
	if *img != nil {
		cfg.Image = *img
	}
	sends := &sendCounter{}
	w := world.New(cfg, sends)
	w.KeepLog = keepLog
	defer func() {
		if r := recover(); r != nil {
			if d, ok := r.(vx.Divergence); ok {
				panic(d)
			}
			w.Violate("panic:"+firstLine(fmt.Sprint(r)), "panic on the kernel thread: %v", r)
		}
		viol, labels, choices, log, cut = w.Viol, ch.Labels(), ch.Choices(), w.Log, ch.Cut
		func() {
			defer func() { _ = recover() }()
			w.Close()
		}()
	}()
	if *img == nil {
		// the setup runs on a gated twin configuration (same tables), then is snapshotted
		g := world.DefaultConfig()
		g.System.TaskEnqueueDelay = 5 * time.Millisecond
		sw := world.New(g)
		j.Setup.f(sw)
		*img, *imgClock = &world.Image{Bytes: sw.Snapshot()}, sw.Clock
		sw.Close()
		w.Restore(*img, *imgClock)
	} else {
		w.Clock = *imgClock
	}
	w.Step, w.Log = 0, nil
	faults := j.Faults
	stepMs := j.Cfg.st.Milliseconds()
	if stepMs == 0 {
		stepMs = 1
	}
	first := map[string]int{} // obligation -> cycle in which it was first seen
	sendsAt := map[string]int{}
	sweptAt := map[string]int{}
	start := obligationKeys(w.Dump(), w.Clock+stepMs)
	// bound on the number of cycles any single obligation may stay open
	K := len(start) + len(w.Dump().Schedules)*2 + j.Faults + 4
	for cycle := 0; cycle < j.Cycles; cycle++ {
		w.SetClock(w.Clock + stepMs)
		for guard := 0; len(w.Pending()) > 0; guard++ {
			if guard > 2000 {
				w.Violate("C11:cycle-does-not-end", "a background cycle keeps issuing submissions")
				return
			}
			if len(w.Viol) > 0 {
				return
			}
			if ch.Seen(func() string {
				obs := []string{}
				for k, v := range first {
					obs = append(obs, fmt.Sprintf("%s@%d", k, cycle-v))
				}
				sort.Strings(obs)
				return w.Key(false, j.Bound >= 0) + fmt.Sprintf("cycle=%d faults=%d obs=%v", j.Cycles-cycle, faults, obs)
			}) {
				return
			}
			pend := w.Pending()
			var lab []string
			var costs []int
			var acts []func()
			for i, p := range pend {
				i := i
				c := 0
				if i > 0 {
					c = 1
				}
				lab, costs, acts = append(lab, "exec "+p.Label()), append(costs, c), append(acts, func() { w.Exec(i, world.OK) })
			}
			if faults > 0 {
				for i, p := range pend {
					i := i
					lab, costs, acts = append(lab, "failbefore "+p.Label()), append(costs, 1), append(acts, func() { faults--; w.Exec(i, world.FailBefore) })
					if p.Kind() == t_aio.Store {
						lab, costs, acts = append(lab, "failafter "+p.Label()), append(costs, 1), append(acts, func() { faults--; w.Exec(i, world.FailAfter) })
					}
					if p.Kind() == t_aio.Sender {
						lab, costs, acts = append(lab, "refuse "+p.Label()), append(costs, 1), append(acts, func() { faults--; w.Exec(i, world.SendRefuse) })
					}
				}
			}
			acts[ch.Choose(lab, costs)]()
		}
		if len(w.Viol) > 0 {
			return
		}
		// end of cycle: which obligations are open, and for how long?
		now := obligationKeys(w.Dump(), w.Clock)
		for k := range first {
			if _, still := now[k]; !still {
				delete(first, k)
			}
		}
		for _, k := range sortedKeysS(now) {
			msg := now[k]
			if _, ok := first[k]; !ok {
				first[k] = cycle
				sendsAt[k] = sends.n
				sweptAt[k] = sends.swept
			}
			if cycle-first[k] >= K {
				kind, _, _ := strings.Cut(k, ":")
				if kind == "task-lease-overdue" {
					// distinguish "the lease sweep does nothing" from "it keeps retiring other tasks"
					if sends.swept-sweptAt[k] > 0 {
						kind += fmt.Sprintf(":starved-by-other-tasks:tbs=%d", j.Cfg.tbs)
					} else {
						kind += ":no-sweep-progress"
					}
				}
				if kind == "task-undispatched" {
					// distinguish "nothing is dispatched at all" from "other roots keep being dispatched"
					if sends.n-sendsAt[k] > 0 {
						kind += fmt.Sprintf(":starved-by-other-roots:tbs=%d", j.Cfg.tbs)
					} else {
						kind += ":no-dispatch-at-all"
					}
				}
				w.Violate("C11:not-converging:"+kind, "%s — still so after %d background cycles (bound for this state and configuration: %d) with configuration %s", msg, cycle-first[k]+1, K, j.Cfg)
				return
			}
		}
	}
	outcome = w.Dump().Text()
	return
}

func (j *C11Job) Run(deadline time.Time) *runner.JobResult {
	res := &runner.JobResult{Name: j.Name(), Counters: map[string]int64{}}
	var img *world.Image
	var imgClock int64
	// determinism self-test
	_, l0, c0, _, o0, _ := j.runOnce(vx.NewChooser(nil), false, &img, &imgClock)
	_, l1, _, _, o1, _ := j.runOnce(vx.NewChooser(c0), false, &img, &imgClock)
	if o0 != o1 || strings.Join(l0, "|") != strings.Join(l1, "|") {
		res.HarnessErr = "determinism self-test failed"
		return res
	}
	known := runner.KnownSigs("C11")
	outcomes := map[string]bool{}
	seen := map[string]bool{}
	ex := &vx.Explorer{Bound: j.Bound, Prune: true, Stop: func() bool { return !deadline.IsZero() && time.Now().After(deadline) }}
	ex.Explore(func(ch *vx.Chooser) bool {
		runner.Trace(fmt.Sprintf("JOB %s PREFIX %v", j.Name(), ch.Prefix()))
		viol, labels, choices, _, outcome, cut := j.runOnce(ch, false, &img, &imgClock)
		if !cut && len(viol) == 0 {
			outcomes[h8(outcome)] = true
			if len(res.Samples) < 1 {
				res.Samples = append(res.Samples, map[string]any{"config": j.Cfg.String(), "schedule_prefix": firstN(labels, 25)})
			}
		}
		for _, v := range viol {
			if seen[v.Sig] {
				continue
			}
			seen[v.Sig] = true
			rv := runner.Violation{Sig: v.Sig, Msg: v.Msg, Job: j.Name()}
			var lg []string
			for k := 0; k < 3; k++ {
				vv, _, _, l, _, _ := j.runOnce(vx.NewChooser(choices), true, &img, &imgClock)
				found := false
				for _, x := range vv {
					if x.Sig == v.Sig {
						found = true
					}
				}
				if !found {
					rv.Flaky = true
				}
				lg = l
			}
			if len(lg) > 120 {
				lg = append(lg[:60], lg[len(lg)-60:]...)
			}
			rv.Replay = map[string]any{"job": j.Name(), "choices": choices, "log": lg}
			res.Violations = append(res.Violations, rv)
		}
		for sg := range seen {
			if !known[sg] {
				return false
			}
		}
		return true
	})
	res.Executions, res.States, res.Transitions, res.Cut, res.MaxDepth, res.Capped = ex.Stats.Executions, ex.Stats.States, ex.Stats.Transitions, ex.Stats.Cut, ex.Stats.MaxDepth, ex.Stats.Capped
	for o := range outcomes {
		res.Outcomes = append(res.Outcomes, o)
	}
	sort.Strings(res.Outcomes)
	return res
}

func sortedKeysS(m map[string]string) []string {
	ks := make([]string, 0, len(m))
	for k := range m {
		ks = append(ks, k)
	}
	sort.Strings(ks)
	return ks
}

func firstN(s []string, n int) []string {
	if len(s) > n {
		return s[:n]
	}
	return s
}

func c11Setups() []setupF {
	return []setupF{
		{"rich", func(w *world.World) {
			// two overdue promises (one with registrations), a routed pending promise whose task is
			// dispatchable, a claimed task with an elapsed lease, an enqueued task with an elapsed
			// window, an expired lock, two schedules behind
			w.Do(9, 0, CreateP("r", "", false, 100000, routedTags, "root").F())
			w.Do(9, 1, CreateP("o1", "", false, 3, nil, "x").F())
			w.Do(9, 2, CreateP("o2", "", false, 3, map[string]string{"resonate:timeout": "true"}, "x").F())
			w.Do(9, 3, Callback("r", "o1", 100000, `"poll://g/w"`).F())
			w.Do(9, 4, Subscribe("s1", "o1", 100000, `"poll://g/w"`).F())
			w.Do(9, 5, CreateP("c", "", false, 100000, routedTags, "x").F())
			w.Do(9, 6, ClaimT("__invoke:c", 1, "w1", 1).F())
			w.Do(9, 7, CreateP("e", "", false, 100000, routedTags, "x").F())
			w.Do(9, 8, AcquireL("l1", "e1", "p1", 1).F())
			w.Do(9, 9, CreateS("s", everySecond, "{{.id}}.{{.timestamp}}", 500, "", nil).F())
			w.Do(9, 10, CreateS("s2", every2Seconds, "{{.id}}.{{.timestamp}}", 500, "", nil).F())
			w.SetClock(2500)
		}},
		{"tasks", func(w *world.World) {
			// three dispatchable tasks on two roots plus a notification to an unknown receiver
			w.Do(9, 0, CreateP("a", "", false, 100000, routedTags, "x").F())
			w.Do(9, 1, CreateP("b", "", false, 100000, routedTags, "x").F())
			w.Do(9, 2, CreateP("p", "", false, 100000, nil, "x").F())
			w.Do(9, 3, Callback("a", "p", 100000, `"poll://g/w"`).F())
			w.Do(9, 4, Subscribe("s1", "p", 100000, `"nowhere"`).F())
			// a resume task whose OWN timeout (12) is earlier than its root's, claimed by a
			// worker that then disappears: the lease sweep must time it out
			w.Do(9, 5, Callback("b", "p", 12, `"poll://g/w"`).F())
			w.Do(9, 6, CompleteP("p", promise.Resolved, "", false, "v").F())
			w.Do(9, 7, ClaimT("__resume:b:p", 1, "w9", 1).F())
			w.SetClock(10)
		}},
		{"elapsed-init-first", func(w *world.World) {
			// the first root in dispatch order has nothing but a resume task whose own
			// timeout (12) had already passed when the awaited promise completed (at 20):
			// the cycle has to retire it, behind it waits a dispatchable invocation
			w.Do(9, 0, CreateP("a", "", false, 100000, nil, "x").F())
			w.Do(9, 1, CreateP("b", "", false, 100000, routedTags, "x").F())
			w.Do(9, 2, CreateP("p", "", false, 100000, nil, "x").F())
			w.Do(9, 3, Callback("a", "p", 12, `"poll://g/w"`).F())
			w.Do(9, 4, ClaimT("__invoke:b", 1, "w1", 1).F())
			w.Do(9, 5, CreateP("p2", "", false, 100000, nil, "x").F())
			w.Do(9, 6, Callback("b", "p2", 30, `"poll://g/w"`).F())
			w.SetClock(20)
			w.Do(9, 7, CompleteP("p", promise.Resolved, "", false, "v").F())
			// a resume task with its own timeout (30), claimed with a lease that reaches far
			// beyond it: the task sweep has to retire it when its timeout passes
			w.Do(9, 8, CompleteP("p2", promise.Resolved, "", false, "v").F())
			w.Do(9, 9, ClaimT("__resume:b:p2", 1, "w2", 100000).F())
		}},
	}
}

func c11Jobs(tier string) []runner.Job {
	var jobs []runner.Job
	batches := [][3]int{{1, 1, 1}, {2, 2, 2}, {100, 100, 100}}
	if tier == "thorough" {
		batches = nil
		for _, a := range []int{1, 2, 100} {
			for _, b := range []int{1, 2, 100} {
				for _, c := range []int{1, 2, 100} {
					batches = append(batches, [3]int{a, b, c})
				}
			}
		}
	}
	cmss := []int{1, 2, 5, 1000}
	if tier == "thorough" {
		cmss = []int{1, 2, 3, 5, 6, 1000}
	}
	for _, su := range c11Setups() {
		for _, b := range batches {
			for _, cms := range cmss {
				for _, st := range []time.Duration{time.Millisecond, time.Second} {
					// enqueue delay: the documented range is 1s..10s (0 would make every
					// dispatched task lapse within the same cycle, which the property excludes)
					for _, ted := range []time.Duration{time.Second, 10 * time.Second} {
						if tier != "thorough" && ted == 10*time.Second {
							continue
						}
						for _, cbs := range []int{1, 1000} {
							if tier != "thorough" && cbs == 1 && !(b[0] == 1 && cms <= 2) {
								continue
							}
							cfg := c11Cfg{pbs: b[0], sbs: b[1], tbs: b[2], cms: cms, st: st, ted: ted, cbs: cbs}
							jobs = append(jobs, &C11Job{Cfg: cfg, Setup: su, Faults: 0, Bound: tierInt(tier, 1, 2), Cycles: tierInt(tier, 20, 40)})
							if tier == "thorough" || (b[0] != 2 && st == time.Second && (cms == 1 || cms == 1000) && cbs == 1000) {
								jobs = append(jobs, &C11Job{Cfg: cfg, Setup: su, Faults: tierInt(tier, 1, 2), Bound: tierInt(tier, 1, 2), Cycles: tierInt(tier, 20, 40)})
							}
						}
					}
				}
			}
		}
	}
	return jobs
}

func init() {
	Registry["C11"] = func() *runner.Spec {
		return &runner.Spec{
			Property: "C11", Engine: "kexplore", Level: "model_checking",
			Jobs: c11Jobs,
			Rule:   "un-gated kernel (the real Tick start logic) from three rich database states (overdue promises with registrations, expired lock, schedules behind by several occurrences, dispatchable / claimed-and-lapsed tasks, a notification to an unknown receiver, an init task whose own timeout has passed in front of a dispatchable one, a task claimed far beyond its timeout) x configuration grid {promise/schedule/task batch size 1,2,100} x {coroutine pool 1,2,5,1000} x {signal timeout 1ms,1s} x {enqueue delay 1s(,10s)} x {completion/submission batch 1,1000}; 20 (40 thorough) cycles each, the clock advancing by the signal timeout per cycle; every order of the sweeps' submissions within deviation bound 1 (2 thorough) and every placement of <=1 (2) store/router/sender failure; an obligation (overdue promise, expired lock, unfired occurrence, undispatched task, lapsed lease) must be discharged within a bound computed from the state; distinct = distinct final databases per configuration",
			Assume: append([]string{"bounded liveness: 20/40 cycles, obligation bound K = due items + 2*schedules + failures + 4 cycles"}, engineAAssume...),
			QuickS: 150, ThoroughS: 2400,
		}
	}
}
