package props

import "github.com/resonatehq/resonate/internal/verif/runner"

var Registry = map[string]func() *runner.Spec{}

func scenarioJobs(prop string, f func(tier string) []*Scenario) func(tier string) []runner.Job {
	return func(tier string) []runner.Job {
		var jobs []runner.Job
		known := runner.KnownSigs(prop)
		for _, sc := range f(tier) {
			sc.Known = known
			if tier == "thorough" && sc.Lates == 0 && !sc.AtomicRequests && !sc.ClockWhenIdle && len(sc.Menu) == 0 {
				// thorough: one store read per execution may reach its coroutine late (stale read)
				sc.Lates = 1
			}
			jobs = append(jobs, &ScenarioJob{Sc: sc})
		}
		return jobs
	}
}

var engineAAssume = []string{
	"SQLite's own atomic commit is trusted; a store is a serial executor of transactions (exact for SQLite's single worker)",
	"gocoro's lock-step between scheduler and coroutine goroutines is trusted (exercised, not explored below coroutine granularity)",
	"bounds: the scenario alphabets, fault/crash budgets and clock menus listed in DESIGN.md section 4",
	"a completion reaches its coroutine in the step that executed the submission, except (thorough tier, and C01's pending setups in both tiers) at most one store read per execution, which may be delivered with the next tick",
}

func init() {
	Registry["C01"] = func() *runner.Spec {
		return &runner.Spec{
			Property: "C01", Engine: "kexplore", Level: "model_checking",
			Jobs:   scenarioJobs("C01", C01Scenarios),
			Rule:   "every interleaving (state-key pruned, unbounded preemptions) of the store/router/sender submissions of 2-3 concurrent requests on one promise id with the time-out sweep, a clock step onto the deadline, <=1 injected before/after-commit failure, <=1 crash and (pending setups) <=1 store read delivered late, from 5 setup states; distinct = distinct (responses, final database) vectors per scenario",
			Assume: engineAAssume, QuickS: 200, ThoroughS: 1500,
		}
	}
}
