package props

import (
	"fmt"
	"strings"

	"github.com/resonatehq/resonate/internal/kernel/t_api"
	"github.com/resonatehq/resonate/internal/util"
	"github.com/resonatehq/resonate/internal/verif/runner"
	"github.com/resonatehq/resonate/internal/verif/world"
)

// ---------------------------------------------------------------------------
// C10 — schedules fire every occurrence exactly once, in order, atomically
// ---------------------------------------------------------------------------

type C10Monitor struct {
	world.BaseMonitor
	deletedAt map[string]int64 // schedule id -> clock of its deletion
	pre       map[string]*world.Dump
}

func (m *C10Monitor) OnStart(w *world.World) {
	m.deletedAt, m.pre = map[string]int64{}, map[string]*world.Dump{}
}

func (m *C10Monitor) Key() string { return fmt.Sprint(m.deletedAt) }

func (m *C10Monitor) OnSubmit(w *world.World, r *world.Req) {
	if m.pre == nil {
		m.OnStart(w)
	}
	m.pre[r.Id] = w.Dump()
}

// expandRef is the reference expansion of the promise id template for the menu
// of templates used here ({{.id}} and {{.timestamp}} only).
func expandRef(tmpl, id string, ts int64) string {
	s := strings.ReplaceAll(tmpl, "{{.id}}", id)
	return strings.ReplaceAll(s, "{{.timestamp}}", fmt.Sprint(ts))
}

// unparsable: the template uses action delimiters beyond the two documented fields.
func unparsable(tmpl string) bool {
	rest := strings.ReplaceAll(strings.ReplaceAll(tmpl, "{{.id}}", ""), "{{.timestamp}}", "")
	return strings.Contains(rest, "{{")
}

func nextRef(t int64, cron string) int64 {
	n, err := util.Next(t, cron)
	if err != nil {
		return -1
	}
	return n
}

// isOccurrence: t is reachable from createdOn by iterating the cron library's Next.
func isOccurrence(createdOn, t int64, cron string) bool {
	cur := createdOn
	for i := 0; i < 100000 && cur < t; i++ {
		cur = nextRef(cur, cron)
		if cur < 0 {
			return false
		}
	}
	return cur == t
}

func (m *C10Monitor) OnCommit(w *world.World, e *world.CommitEvent) {
	if m.deletedAt == nil {
		m.OnStart(w)
	}
	if e.Err != nil {
		if e.Before.Text() != e.After.Text() {
			w.Violate("C10:failed-tx-changed-db", "a failed transaction changed the database")
		}
		return
	}
	CheckPromiseTransitions(w, e, "C10")
	for id := range e.Before.Schedules {
		if _, ok := e.After.Schedules[id]; !ok {
			m.deletedAt[id] = e.Clock
		}
	}
	for id, a := range e.After.Schedules {
		b := e.Before.Schedules[id]
		if b == nil {
			// created: first run is the first occurrence after creation
			if a.NextRunTime != nextRef(a.CreatedOn, a.Cron) || a.LastRunTime != nil {
				w.Violate("C10:first-occurrence", "schedule %s created with next run %d, the first occurrence after its creation is %d", a, a.NextRunTime, nextRef(a.CreatedOn, a.Cron))
			}
			continue
		}
		if a.Cron != b.Cron || a.PromiseId != b.PromiseId || a.PromiseTimeout != b.PromiseTimeout || a.ParamHeaders != b.ParamHeaders || a.ParamData != b.ParamData || a.PromiseTags != b.PromiseTags || a.Tags != b.Tags || !eqp(a.Ik, b.Ik) || a.CreatedOn != b.CreatedOn || a.Description != b.Description || a.SortId != b.SortId {
			w.Violate("C10:schedule-definition-changed", "schedule definition changed: %s -> %s (commit %v)", b, a, e.Owners)
		}
		if a.NextRunTime == b.NextRunTime {
			if !eqp(a.LastRunTime, b.LastRunTime) {
				w.Violate("C10:last-run-changed-alone", "last run time changed without a firing: %s -> %s", b, a)
			}
			continue
		}
		// firing commit(s): advanced by exactly one occurrence each, never early
		steps := 0
		cur := b.NextRunTime
		for cur < a.NextRunTime && steps < 10 {
			if e.Clock < cur {
				w.Violate("C10:fired-before-occurrence", "schedule %q fired occurrence %d at clock %d", id, cur, e.Clock)
			}
			m.checkFiring(w, e, b, cur)
			cur = nextRef(cur, b.Cron)
			steps++
		}
		if cur != a.NextRunTime {
			w.Violate("C10:skipped-or-invalid-occurrence", "schedule %q advanced from %d to %d which is not the next occurrence(s) of %q", id, b.NextRunTime, a.NextRunTime, b.Cron)
		}
		if steps > 1 && len(e.Subs) == 1 {
			w.Violate("C10:two-occurrences-one-step", "schedule %q advanced %d occurrences in one transaction", id, steps)
		}
		if a.LastRunTime == nil || *a.LastRunTime >= a.NextRunTime || (b.LastRunTime != nil && *a.LastRunTime <= *b.LastRunTime) {
			w.Violate("C10:last-run-time", "last run time not advancing in order: %s -> %s", b, a)
		}
	}
	// a scheduled promise is only born together with its schedule's advance
	for pid, p := range e.After.Promises {
		if _, existed := e.Before.Promises[pid]; existed {
			continue
		}
		tags := jsonMap(p.Tags)
		sid, ok := tags["resonate:schedule"]
		if !ok || tags["resonate:invocation"] != "true" {
			continue
		}
		if !m.bySweep(e) {
			continue // a user may create any promise, also one that carries these tags
		}
		b := e.Before.Schedules[sid]
		a := e.After.Schedules[sid]
		if b == nil {
			for _, sub := range e.Subs {
				for _, c := range sub.Store.Transaction.Commands {
					if c.UpdateSchedule != nil && c.UpdateSchedule.Id == sid && c.UpdateSchedule.LastRunTime != nil {
						if d, was := m.deletedAt[sid]; !was || *c.UpdateSchedule.LastRunTime > d {
							w.Violate("C10:fired-after-deletion", "occurrence %d of deleted schedule %q (deleted at %v) fired", *c.UpdateSchedule.LastRunTime, sid, d)
						}
					}
				}
			}
			continue
		}
		if a == nil || a.NextRunTime == b.NextRunTime {
			// the occurrence may belong to a former incarnation of the schedule id
			// (deleted and re-created since the cycle read it): allowed up to the deletion
			former := false
			for _, sub := range e.Subs {
				for _, c := range sub.Store.Transaction.Commands {
					if c.UpdateSchedule != nil && c.UpdateSchedule.Id == sid && c.UpdateSchedule.LastRunTime != nil {
						if d, was := m.deletedAt[sid]; was && *c.UpdateSchedule.LastRunTime <= d {
							former = true
						}
					}
				}
			}
			if former {
				continue
			}
			w.Violate("C10:promise-without-advance", "scheduled promise %q was created but schedule %q did not advance in the same commit (%v)", pid, sid, e.Owners)
		}
	}
}

func (m *C10Monitor) bySweep(e *world.CommitEvent) bool {
	for _, o := range e.Owners {
		if strings.HasPrefix(o, "SchedulePromises:") {
			return true
		}
	}
	return false
}

// checkFiring: the commit that advances schedule b past occurrence occ must leave
// the occurrence's promise in place, and if it created it, with the prescribed fields.
func (m *C10Monitor) checkFiring(w *world.World, e *world.CommitEvent, b *world.ScheduleRow, occ int64) {
	pid := expandRef(b.PromiseId, b.Id, occ)
	p, ok := e.After.Promises[pid]
	if !ok {
		w.Violate("C10:fired-without-promise", "schedule %q advanced past occurrence %d but promise %q does not exist (commit %v)", b.Id, occ, pid, e.Owners)
		return
	}
	if _, existed := e.Before.Promises[pid]; existed {
		return
	}
	want := jsonMap(b.PromiseTags)
	want["resonate:schedule"] = b.Id
	want["resonate:invocation"] = "true"
	if p.Timeout != occ+b.PromiseTimeout {
		w.Violate("C10:promise-timeout", "scheduled promise %q has timeout %d, want occurrence %d + %d", pid, p.Timeout, occ, b.PromiseTimeout)
	}
	if !mapEq(jsonMap(p.Tags), want) {
		w.Violate("C10:promise-tags", "scheduled promise %q has tags %s, want %v", pid, p.Tags, want)
	}
	if !mapEq(jsonMap(p.ParamHeaders), jsonMap(b.ParamHeaders)) || p.ParamData != b.ParamData {
		w.Violate("C10:promise-param", "scheduled promise %q has param %s/%q, schedule says %s/%q", pid, p.ParamHeaders, p.ParamData, b.ParamHeaders, b.ParamData)
	}
	if p.State != 1 {
		w.Violate("C10:promise-state", "scheduled promise %q born in state %d", pid, p.State)
	}
	if routes := RoutesRef(jsonMap(p.Tags), "resonate:invoke"); routes {
		if _, ok := e.After.Tasks["__invoke:"+pid]; !ok {
			w.Violate("C10:routed-scheduled-promise-without-task", "scheduled promise %q routes but has no task", pid)
		}
	}
}

func (m *C10Monitor) OnResponse(w *world.World, r *world.Req) {
	if r.Res == nil || m.pre == nil {
		return
	}
	switch r.Res.Kind {
	case t_api.CreateSchedule:
		q := r.Req.CreateSchedule
		st := r.Status()
		now := w.Dump().Schedules[q.Id]
		switch st {
		case 20100:
			if _, deleted := m.deletedAt[q.Id]; now == nil && !deleted {
				w.Violate("C10:created-schedule-missing", "schedule %q reported created but is absent", q.Id)
			}
		case 20000, 40901:
			s := r.Res.CreateSchedule.Schedule
			if s == nil {
				w.Violate("C10:create-schedule-body", "create schedule answered %d without the schedule", st)
				return
			}
			match := s.IdempotencyKey != nil && q.IdempotencyKey != nil && *s.IdempotencyKey == *q.IdempotencyKey
			if (st == 20000) != match {
				w.Violate(fmt.Sprintf("C10:create-schedule-status-%d", st), "create schedule with key %v on schedule with key %v answered %d", q.IdempotencyKey, s.IdempotencyKey, st)
			}
		default:
			w.Violate(fmt.Sprintf("C10:create-schedule-status-%d", st), "create schedule answered %d", st)
		}
	}
}

// OnEnd: after the epilogue has let the firing cycle catch up, every occurrence in
// (created_on, clock] of every existing schedule has its promise and nothing is pending.
func (m *C10Monitor) OnEnd(w *world.World) {
	d := w.Dump()
	for id, s := range d.Schedules {
		if unparsable(s.PromiseId) {
			continue // a template that does not parse can never fire; the cycle skips it
		}
		if s.NextRunTime <= w.Clock {
			w.Violate("C10:not-caught-up", "schedule %q still has next run %d <= clock %d after the cycles of the epilogue", id, s.NextRunTime, w.Clock)
			continue
		}
		if !isOccurrence(s.CreatedOn, s.NextRunTime, s.Cron) {
			w.Violate("C10:next-run-not-an-occurrence", "schedule %s: next run is not an occurrence of its cron expression", s)
		}
		n := 0
		for occ := nextRef(s.CreatedOn, s.Cron); occ > 0 && occ <= w.Clock && n < 1000; occ = nextRef(occ, s.Cron) {
			n++
			pid := expandRef(s.PromiseId, s.Id, occ)
			if _, ok := d.Promises[pid]; !ok {
				w.Violate("C10:occurrence-never-fired", "occurrence %d of schedule %q has no promise %q at the end", occ, id, pid)
			}
		}
	}
}

func catchUpClients(tier string, acts []ReqF) [][]ReqF {
	if tier == "thorough" {
		return [][]ReqF{{acts[6]}, {acts[3]}}
	}
	return [][]ReqF{{acts[3]}}
}

const everySecond = "* * * * * *"
const every2Seconds = "*/2 * * * * *"

func c10Epilogue(w *world.World) {
	// let the firing cycle catch up: one occurrence per schedule per cycle
	for i := 0; i < 70; i++ {
		behind := false
		for _, s := range w.Dump().Schedules {
			if s.NextRunTime <= w.Clock {
				behind = true
			}
		}
		if !behind {
			return
		}
		w.Sweep("SchedulePromises")
	}
}

func C10Scenarios(tier string) []*Scenario {
	var out []*Scenario
	mon := func() []world.Monitor { return []world.Monitor{&C10Monitor{}} }
	base := func(ptags map[string]string) setupF {
		return setupF{"s+s2", func(w *world.World) {
			w.Do(9, 0, CreateS("s", everySecond, "{{.id}}.{{.timestamp}}", 500, "k", ptags).F())
			w.Do(9, 1, CreateS("s2", every2Seconds, "fixed-{{.id}}", 500, "", nil).F())
		}}
	}
	one := setupF{"s", func(w *world.World) {
		w.Do(9, 0, CreateS("s", everySecond, "{{.id}}.{{.timestamp}}", 500, "k", nil).F())
	}}
	acts := []ReqF{
		DeleteS("s"),
		CreateS("s", everySecond, "{{.id}}.{{.timestamp}}", 500, "k", nil),
		CreateS("s", every2Seconds, "other", 7, "k2", nil),
		CreateP("s.1000", "", false, 5000, nil, "user"),
		CreateP("s.2000", "u", false, 5000, map[string]string{"resonate:schedule": "s", "resonate:invocation": "true"}, "user"),
		ReadS("s"),
		CreateS("s3", "0 * * * * *", "{{.id}}/m/{{.timestamp}}", 1, "", nil),
	}
	for _, sbs := range []int{1, 2, 100} {
		cfg := world.DefaultConfig()
		cfg.System.ScheduleBatchSize = sbs
		for i := 0; i < len(acts); i++ {
			for j := i; j < len(acts); j++ {
				if sbs != 100 && tier != "thorough" && !(i == 0 && (j == 1 || j == 3)) {
					continue
				}
				if tier != "thorough" && (i == j || (i >= 3 && j >= 4)) {
					continue
				}
				su := base(nil)
				if sbs == 100 && tier != "thorough" {
					su = one
				}
				out = append(out, &Scenario{
					Name: fmt.Sprintf("C10/sbs=%d/%s|%s", sbs, acts[i].Label, acts[j].Label), Cfg: cfg, Clock0: 0, Setup: su.f,
					Clients: [][]ReqF{{acts[i]}, {acts[j]}}, Sweeps: map[string]int{"SchedulePromises": tierInt(tier, 2, 3)},
					ClockMenu: []int64{999, 1000, int64(tierInt(tier, 2500, 3500))}, Faults: tierInt(tier, 0, 1),
					Epilogue: c10Epilogue, Monitors: mon, Bound: -1,
				})
			}
		}
	}
	// downtime: the clock jumps over many occurrences, cycles catch up one by one; crash mid-cycle
	for _, jump := range [][]int64{{1000}, {1001, 2000}, {3000}, {10000}, {60000}} {
		for _, crashes := range []int{0, 1} {
			cfg := world.DefaultConfig()
			if jump[0] >= 10000 {
				// long downtime: what matters is the one-by-one catch-up
				if tier != "thorough" && jump[0] > 10000 {
					continue
				}
				out = append(out, &Scenario{
					Name: fmt.Sprintf("C10/catch-up/jump=%v/crash=%d", jump, crashes), Cfg: cfg, Clock0: 0, Setup: base(nil).f,
					Clients: [][]ReqF{{acts[5]}}, Sweeps: map[string]int{"SchedulePromises": 2}, ClockMenu: jump,
					Crashes: crashes, Epilogue: c10Epilogue, Monitors: mon, Bound: -1,
				})
				continue
			}
			out = append(out, &Scenario{
				Name: fmt.Sprintf("C10/catch-up/jump=%v/crash=%d", jump, crashes), Cfg: cfg, Clock0: 0, Setup: base(nil).f,
				Clients: catchUpClients(tier, acts), Sweeps: map[string]int{"SchedulePromises": tierInt(tier, 3, 4)}, ClockMenu: jump,
				Crashes: crashes, Faults: 1 - crashes, Epilogue: c10Epilogue, Monitors: mon, Bound: -1,
			})
		}
	}
	// two creations of an absent schedule racing each other (same key: the loser is the
	// idempotent repeat; different keys: the loser is refused with the winner in the body)
	onlyS2 := func(w *world.World) {
		w.Do(9, 1, CreateS("s2", every2Seconds, "fixed-{{.id}}", 500, "", nil).F())
	}
	for _, pr := range [][2]ReqF{{acts[1], acts[1]}, {acts[1], acts[2]}} {
		out = append(out, &Scenario{
			Name: fmt.Sprintf("C10/create-race/%s|%s", pr[0].Label, pr[1].Label), Cfg: world.DefaultConfig(), Clock0: 0, Setup: onlyS2,
			Clients: [][]ReqF{{pr[0]}, {pr[1]}}, Sweeps: map[string]int{"SchedulePromises": 1}, ClockMenu: []int64{1000},
			Faults: tierInt(tier, 0, 1), Epilogue: c10Epilogue, Monitors: mon, Bound: -1,
		})
	}
	// a stored schedule that the cycle has to skip (its template does not parse) next to a
	// healthy one whose promise id is already taken
	out = append(out, &Scenario{
		Name: "C10/skipped-schedule-first", Cfg: world.DefaultConfig(), Clock0: 0,
		Setup: func(w *world.World) {
			w.Do(9, 0, CreateS("a-bad", everySecond, "{{", 500, "", nil).F())
			w.Do(9, 1, CreateS("s", everySecond, "{{.id}}.{{.timestamp}}", 500, "k", nil).F())
		},
		Clients: [][]ReqF{{acts[3]}, {acts[5]}}, Sweeps: map[string]int{"SchedulePromises": 2}, ClockMenu: []int64{1000, 2000},
		Faults: tierInt(tier, 0, 1), Epilogue: c10Epilogue, Monitors: mon, Bound: -1,
	})
	// a schedule whose promises route to a receiver (the occurrence's promise is born with its task)
	out = append(out, &Scenario{
		Name: "C10/routed-promises", Cfg: world.DefaultConfig(), Clock0: 0, Setup: base(routedTags).f,
		Clients: [][]ReqF{{acts[5]}}, Sweeps: map[string]int{"SchedulePromises": 2}, ClockMenu: []int64{1000, 2000},
		Faults: 1, Epilogue: c10Epilogue, Monitors: mon, Bound: -1,
	})
	return out
}

func init() {
	Registry["C10"] = func() *runner.Spec {
		return &runner.Spec{
			Property: "C10", Engine: "kexplore", Level: "model_checking",
			Jobs:   scenarioJobs("C10", C10Scenarios),
			Rule:   "every interleaving of the firing cycle (schedule batch size 1, 2, 100; up to 4 cycles) with create / delete / re-create (same and different key) of the schedule and a user creating an occurrence's promise id, clock steps just before / onto / far past occurrences (jumps over 1..60 occurrences), one failure, one crash mid-cycle; two racing creations of an absent schedule; a schedule the cycle has to skip (template that does not parse) in front of a healthy one whose promise id is taken; the epilogue runs cycles until caught up and the final state is compared with the cron library's occurrence sequence; distinct = distinct (responses, final database) vectors",
			Assume: append([]string{"robfig/cron (via util.Next) is the definition of a cron occurrence"}, engineAAssume...), QuickS: 120, ThoroughS: 1200,
		}
	}
}
