package props

import (
	"fmt"
	"sort"
	"time"

	"github.com/resonatehq/resonate/internal/kernel/t_api"
	"github.com/resonatehq/resonate/internal/verif/runner"
	"github.com/resonatehq/resonate/internal/verif/world"
	"github.com/resonatehq/resonate/pkg/promise"
)

// ---------------------------------------------------------------------------
// C07 — single task holder, leases, fencing
// ---------------------------------------------------------------------------

type C07Monitor struct {
	world.BaseMonitor
	protectedUntil map[string]int64 // claimed task -> end of its lease as the property defines it
	claimed        map[string]bool  // "(task,counter)" for which a claim was acknowledged with 201
	pre            map[string]*world.Dump
	Sequential     bool
}

func (m *C07Monitor) OnStart(w *world.World) {
	m.protectedUntil, m.claimed, m.pre = map[string]int64{}, map[string]bool{}, map[string]*world.Dump{}
	for id, t := range w.Dump().Tasks {
		if t.State == 4 {
			m.protectedUntil[id] = t.ExpiresAt
		}
	}
}

func (m *C07Monitor) Key() string {
	ks := []string{}
	for k := range m.claimed {
		ks = append(ks, k)
	}
	sort.Strings(ks)
	return fmt.Sprint(m.protectedUntil, ks)
}

func (m *C07Monitor) OnSubmit(w *world.World, r *world.Req) {
	if m.pre == nil {
		m.OnStart(w)
	}
	m.pre[r.Id] = w.Dump()
}

func finishedTask(s int) bool { return s == 8 || s == 16 }

// CheckTaskTransitions is the transition monitor on `tasks` shared by C07/C08.
func CheckTaskTransitions(w *world.World, e *world.CommitEvent, prop string) {
	for id, b := range e.Before.Tasks {
		a := e.After.Tasks[id]
		if a == nil {
			w.Violate(prop+":task-disappeared", "task %q disappeared (commit %v)", id, e.Owners)
			continue
		}
		if a.Counter < b.Counter {
			w.Violate(prop+":counter-decreased", "task %q counter went %d -> %d", id, b.Counter, a.Counter)
		}
		if finishedTask(b.State) {
			if a.State != b.State || a.Counter != b.Counter {
				w.Violate(prop+":finished-task-reactivated", "finished task changed: %s -> %s (commit %v)", b, a, e.Owners)
			}
			continue
		}
		if len(e.Subs) != 1 {
			continue // several transactions in one batch: intermediate states are not visible
		}
		okEdge := false
		switch b.State {
		case 1:
			okEdge = a.State == 1 || a.State == 2 || a.State == 4 || a.State == 8 || a.State == 16
		case 2:
			okEdge = a.State == 2 || a.State == 1 || a.State == 4 || a.State == 8 || a.State == 16
		case 4:
			okEdge = a.State == 4 || a.State == 1 || a.State == 8 || a.State == 16
		}
		if !okEdge {
			w.Violate(fmt.Sprintf("%s:task-edge-%d-%d", prop, b.State, a.State), "task %q moved %d -> %d (commit %v)", id, b.State, a.State, e.Owners)
		}
		fallback := (b.State == 2 || b.State == 4) && a.State == 1
		if fallback && a.Counter != b.Counter+1 {
			w.Violate(prop+":reclaim-without-counter-increase", "task %q fell back to init without its counter increasing by one: %s -> %s", id, b, a)
		}
		if !fallback && a.Counter != b.Counter {
			w.Violate(prop+":counter-changed", "task %q counter changed %d -> %d without a fall-back to init (%d -> %d)", id, b.Counter, a.Counter, b.State, a.State)
		}
	}
}

func (m *C07Monitor) OnCommit(w *world.World, e *world.CommitEvent) {
	if m.protectedUntil == nil {
		m.OnStart(w)
	}
	if e.Err != nil {
		if e.Before.Text() != e.After.Text() {
			w.Violate("C07:failed-tx-changed-db", "a failed transaction changed the database")
		}
		return
	}
	CheckTaskTransitions(w, e, "C07")
	if len(e.Subs) != 1 {
		// batches: re-base the lease monitor on the rows
		for id, a := range e.After.Tasks {
			if a.State == 4 {
				m.protectedUntil[id] = a.ExpiresAt
			} else {
				delete(m.protectedUntil, id)
			}
		}
		return
	}
	decided := e.SubClocks[0]
	cmds := e.Subs[0].Store.Transaction.Commands
	for id, a := range e.After.Tasks {
		b := e.Before.Tasks[id]
		if b == nil {
			if a.State == 4 {
				m.protectedUntil[id] = a.ExpiresAt
			}
			continue
		}
		switch {
		case b.State != 4 && a.State == 4:
			// claim: only unclaimed unfinished, same counter
			if !(b.State == 1 || b.State == 2) || a.Counter != b.Counter {
				w.Violate("C07:claim-of-unclaimable", "task claimed from %s to %s", b, a)
			}
			ok := false
			for _, c := range cmds {
				if u := c.UpdateTask; u != nil && u.Id == id && int(u.State) == 4 {
					ok = true
					if u.CurrentCounter != b.Counter || u.Counter != b.Counter {
						w.Violate("C07:claim-with-wrong-counter", "claim with counter %d took task with counter %d", u.CurrentCounter, b.Counter)
					}
					if a.ExpiresAt != decided+int64(u.Ttl) || a.Ttl != u.Ttl || a.ProcessId == nil || u.ProcessId == nil || *a.ProcessId != *u.ProcessId {
						w.Violate("C07:claim-lease", "claim decided at clock %d with ttl %d wrote %s", decided, u.Ttl, a)
					}
				}
			}
			if !ok {
				w.Violate("C07:claimed-without-claim", "task %q became claimed without a claim command (commit %v)", id, e.Owners)
			}
			m.protectedUntil[id] = a.ExpiresAt
		case b.State == 4 && a.State == 4:
			if a.ExpiresAt != b.ExpiresAt || !eqp(a.ProcessId, b.ProcessId) || a.Ttl != b.Ttl {
				ok := false
				for _, c := range cmds {
					if h := c.HeartbeatTasks; h != nil && b.ProcessId != nil && h.ProcessId == *b.ProcessId && eqp(a.ProcessId, b.ProcessId) && a.Ttl == b.Ttl && a.ExpiresAt == h.Time+int64(b.Ttl) {
						ok = true
						if e.Clock < m.protectedUntil[id] {
							// a timely heartbeat of the holder (one that was committed before the
							// lease ran out; a heartbeat that straddles the lease end may count
							// either way) moves the lease end to h+ttl; an untimely one also
							// rewrites expires_at but protects nothing
							m.protectedUntil[id] = h.Time + int64(b.Ttl)
						}
					}
				}
				if !ok {
					w.Violate("C07:lease-rewritten", "claimed task's lease/holder changed without a heartbeat of its own process: %s -> %s (commit %v)", b, a, e.Owners)
				}
			}
		case b.State == 4 && (a.State == 1 || a.State == 16):
			// taken away from its holder: only when the lease or the task's timeout has run out
			if decided < m.protectedUntil[id] && decided < b.Timeout {
				w.Violate("C07:task-taken-before-lease-end", "claimed task %s was taken away (-> state %d) by %v deciding at clock %d, but its lease runs until %d and its timeout is %d", b, a.State, e.Owners, decided, m.protectedUntil[id], b.Timeout)
			}
			delete(m.protectedUntil, id)
		case b.State == 4 && a.State == 8:
			// completed: by its holder's completion (matching counter) or by the promise's completion
			ok := false
			for _, c := range cmds {
				if u := c.UpdateTask; u != nil && u.Id == id && int(u.State) == 8 && u.CurrentCounter == b.Counter {
					ok = true
				}
				if ct := c.CompleteTasks; ct != nil && ct.RootPromiseId == b.RootPromiseId {
					ok = true
				}
			}
			if !ok {
				w.Violate("C07:completed-by-stale-holder", "claimed task %s completed without a completion carrying its counter (commit %v)", b, e.Owners)
			}
			delete(m.protectedUntil, id)
		case (b.State == 1 || b.State == 2) && a.State == 16:
			if decided < b.Timeout {
				w.Violate("C07:task-timedout-early", "task %s timed out at decision clock %d before its timeout", b, decided)
			}
		case b.State == 2 && a.State == 1:
			if decided < b.ExpiresAt && decided < b.Timeout {
				w.Violate("C07:enqueued-task-reset-early", "enqueued task %s reset at clock %d before its claim window ended", b, decided)
			}
		}
	}
}

func (m *C07Monitor) OnResponse(w *world.World, r *world.Req) {
	if r.Res == nil {
		return
	}
	if m.claimed == nil {
		m.OnStart(w)
	}
	switch r.Res.Kind {
	case t_api.ClaimTask:
		q := r.Req.ClaimTask
		if r.Status() == 20100 {
			k := fmt.Sprintf("%s/%d", q.Id, q.Counter)
			if m.claimed[k] {
				w.Violate("C07:two-claims-same-counter", "two claims of task %q with counter %d were acknowledged", q.Id, q.Counter)
			}
			m.claimed[k] = true
			if t := r.Res.ClaimTask.Task; t == nil || t.Id != q.Id || t.Counter != q.Counter || t.ProcessId == nil || *t.ProcessId != q.ProcessId {
				w.Violate("C07:claim-body", "claim %s returned task %v", q, t)
			}
		}
		if m.Sequential {
			row := m.pre[r.Id].Tasks[q.Id]
			want := 0
			switch {
			case row == nil:
				want = 40403
			case row.State == 4:
				want = 40305
			case finishedTask(row.State):
				want = 40306
			case row.Counter != q.Counter:
				want = 40307
			default:
				want = 20100
			}
			if r.Status() != want {
				w.Violate(fmt.Sprintf("C07:claim-status:want%d-got%d", want, r.Status()), "claim %s on row %v answered %d, want %d", q, row, r.Status(), want)
			}
		}
	case t_api.CompleteTask:
		q := r.Req.CompleteTask
		// valid in every schedule: finished tasks stay finished, so an acknowledged
		// completion (200 = already finished, 201 = completed now) implies the task is
		// finished when the answer is given
		if st := r.Status(); st == 20000 || st == 20100 {
			if row := w.Dump().Tasks[q.Id]; row == nil || !finishedTask(row.State) {
				w.Violate(fmt.Sprintf("C07:completion-acknowledged-but-task-active:%d", st), "completion %s was acknowledged with %d but the task is %v: a stale holder's completion must be rejected", q, st, row)
			}
		}
		if m.Sequential {
			row := m.pre[r.Id].Tasks[q.Id]
			want := 0
			switch {
			case row == nil:
				want = 40403
			case finishedTask(row.State):
				want = 20000
			case row.State == 1 || row.State == 2:
				want = 40308
			case row.Counter != q.Counter:
				want = 40307
			default:
				want = 20100
			}
			if r.Status() != want {
				w.Violate(fmt.Sprintf("C07:complete-status:want%d-got%d", want, r.Status()), "complete %s on row %v answered %d, want %d", q, row, r.Status(), want)
			}
		}
	case t_api.HeartbeatTasks:
		if m.Sequential {
			n := int64(0)
			for _, t := range m.pre[r.Id].Tasks {
				if t.State == 4 && t.ProcessId != nil && *t.ProcessId == r.Req.HeartbeatTasks.ProcessId {
					n++
				}
			}
			if r.Res.HeartbeatTasks.TasksAffected != n {
				w.Violate("C07:heartbeat-count", "heartbeat of %q reports %d tasks, it held %d", r.Req.HeartbeatTasks.ProcessId, r.Res.HeartbeatTasks.TasksAffected, n)
			}
		}
	}
}

var routedTags = map[string]string{"resonate:invoke": "poll://g/w"}

func taskCfg() world.Config {
	cfg := world.DefaultConfig()
	cfg.System.TaskEnqueueDelay = 5 * time.Millisecond
	return cfg
}

const tp = "__invoke:p"

func c07Setups(timeout int64) []setupF {
	mk := func(w *world.World) { w.Do(9, 0, CreateP("p", "", false, timeout, routedTags, "x").F()) }
	return []setupF{
		{"init", mk},
		{"enqueued", func(w *world.World) { mk(w); w.Sweep("EnqueueTasks") }},
		{"claimed-w1", func(w *world.World) { mk(w); w.Do(9, 1, ClaimT(tp, 1, "w1", 5).F()) }},
		{"reclaimed", func(w *world.World) {
			mk(w)
			w.Do(9, 1, ClaimT(tp, 1, "w1", 0).F())
			w.Sweep("TimeoutTasks")
		}},
	}
}

func C07Scenarios(tier string) []*Scenario {
	var out []*Scenario
	alpha := []ReqF{
		ClaimT(tp, 1, "w1", 5), ClaimT(tp, 1, "w2", 5), ClaimT(tp, 2, "w2", 5), ClaimT(tp, 1, "w2", 0), ClaimT(tp, 3, "w1", 5),
		CompleteT(tp, 1), CompleteT(tp, 2), HeartbeatT("w1"), HeartbeatT("w2"),
		CompleteP("p", promise.Resolved, "", false, "v"),
	}
	for _, to := range []int64{100, 5} {
		for _, su := range c07Setups(to) {
			if to == 5 && tier != "thorough" && su.name != "claimed-w1" && su.name != "enqueued" {
				continue
			}
			// sequences, one at a time, clock walking over the lease end, sweeps anywhere
			for k := range alpha {
				first := alpha[k]
				out = append(out, &Scenario{
					Name: fmt.Sprintf("C07/seq/timeout=%d/%s/first=%s", to, su.name, first.Label), Cfg: taskCfg(), Clock0: 0, Setup: su.f,
					Menu: alpha, MenuFirst: &first, MenuDepth: tierInt(tier, 3, 4), AtomicRequests: true, ClockMenu: clockFor(tier),
					Sweeps:   map[string]int{"TimeoutTasks": tierInt(tier, 1, 2), "EnqueueTasks": tierInt(tier, 0, 1)},
					Monitors: func() []world.Monitor { return []world.Monitor{&C07Monitor{Sequential: true}} }, Bound: -1,
				})
			}
		}
	}
	// concurrent workers
	for _, su := range c07Setups(100) {
		for i := 0; i < len(alpha); i++ {
			for j := i; j < len(alpha); j++ {
				if tier != "thorough" && (i == 4 || j == 4 || i == 3) {
					continue
				}
				out = append(out, &Scenario{
					Name: fmt.Sprintf("C07/%s/%s|%s", su.name, alpha[i].Label, alpha[j].Label), Cfg: taskCfg(), Clock0: 0, Setup: su.f,
					Clients: twoStep(tier, alpha[i], alpha[7], alpha[j], alpha[5]), ClockMenu: clockFor(tier),
					Sweeps: map[string]int{"TimeoutTasks": 1, "EnqueueTasks": tierInt(tier, 0, 1)}, Faults: faultsFor(tier, su.name, i, j),
					Monitors: func() []world.Monitor { return []world.Monitor{&C07Monitor{}} }, Bound: -1,
				})
			}
		}
	}
	return out
}

func clockFor(tier string) []int64 {
	if tier == "thorough" {
		return []int64{4, 5, 6}
	}
	return []int64{4, 5}
}

// quick tier: failures with retries only where a worker claims (the rest in thorough)
func faultsFor(tier, setup string, i, j int) int {
	if tier == "thorough" {
		return 1
	}
	if (setup == "init" || setup == "claimed-w1") && i <= 1 && (j <= 1 || j == 5 || j == 7) {
		return 1
	}
	return 0
}

func init() {
	Registry["C07"] = func() *runner.Spec {
		return &runner.Spec{
			Property: "C07", Engine: "kexplore", Level: "model_checking",
			Jobs:   scenarioJobs("C07", C07Scenarios),
			Rule:   "(i) every sequence of <=3 (4 thorough) claim/complete/heartbeat/complete-promise operations of two workers with current, stale and future counters and ttl {0,5}, from task states init/enqueued/claimed/reclaimed, with the clock stepping over the lease end and the lease-expiry and dispatch sweeps anywhere, checked against a status oracle; (ii) every interleaving of two workers with the sweeps and one fault; a lease monitor kept by the oracle decides whether a task may be taken away; distinct = distinct (responses, final database) vectors",
			Assume: engineAAssume, QuickS: 150, ThoroughS: 1500,
		}
	}
}
