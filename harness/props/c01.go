package props

import (
	"strings"
	"encoding/json"
	"fmt"
	"reflect"

	"github.com/resonatehq/resonate/internal/kernel/t_api"
	"github.com/resonatehq/resonate/internal/verif/world"
	"github.com/resonatehq/resonate/pkg/promise"
)

// ---------------------------------------------------------------------------
// C01 — completion is write-once, creation fields immutable, every observation
// of a promise agrees with the one row that exists.
// ---------------------------------------------------------------------------

type C01Monitor struct{ world.BaseMonitor }

func eqp[T comparable](a, b *T) bool {
	if a == nil || b == nil {
		return a == b
	}
	return *a == *b
}

func creationHalfEqual(a, b *world.PromiseRow) bool {
	return a.Id == b.Id && a.SortId == b.SortId && a.ParamHeaders == b.ParamHeaders && a.ParamData == b.ParamData &&
		a.Timeout == b.Timeout && eqp(a.IkCreate, b.IkCreate) && a.Tags == b.Tags && eqp(a.CreatedOn, b.CreatedOn)
}

func completionHalfEqual(a, b *world.PromiseRow) bool {
	return a.State == b.State && eqp(a.ValueHeaders, b.ValueHeaders) && eqp(a.ValueData, b.ValueData) &&
		eqp(a.IkComplete, b.IkComplete) && eqp(a.CompletedOn, b.CompletedOn)
}

func validCompleted(s int) bool { return s == 2 || s == 4 || s == 8 || s == 16 }

func (C01Monitor) OnCommit(w *world.World, e *world.CommitEvent) {
	CheckPromiseTransitions(w, e, "C01")
}

// CheckPromiseTransitions is the table-transition invariant on `promises`.
func CheckPromiseTransitions(w *world.World, e *world.CommitEvent, prop string) {
	if e.Err != nil && e.Before.Text() != e.After.Text() {
		w.Violate(prop+":failed-tx-changed-db", "a failed transaction changed the database:\nbefore:\n%s\nafter:\n%s", e.Before.Text(), e.After.Text())
		return
	}
	for id, b := range e.Before.Promises {
		a, ok := e.After.Promises[id]
		if !ok {
			w.Violate(prop+":promise-disappeared", "promise %q disappeared in commit by %v", id, e.Owners)
			continue
		}
		if !creationHalfEqual(a, b) {
			w.Violate(prop+":creation-fields-changed", "creation fields of %q changed: %s -> %s", id, b, a)
		}
		if b.State != 1 {
			if !completionHalfEqual(a, b) {
				w.Violate(prop+":completed-promise-rewritten", "completed promise %q changed again: %s -> %s (commit by %v)", id, b, a, e.Owners)
			}
			continue
		}
		if a.State == 1 {
			if !completionHalfEqual(a, b) {
				w.Violate(prop+":pending-promise-has-completion-fields", "pending promise %q got completion fields: %s -> %s", id, b, a)
			}
			continue
		}
		if !validCompleted(a.State) {
			w.Violate(prop+":invalid-state", "promise %q moved to invalid state %d", id, a.State)
		}
		if a.CompletedOn == nil || a.ValueHeaders == nil || a.ValueData == nil {
			w.Violate(prop+":completion-incomplete", "promise %q completed without value/completion time: %s", id, a)
			continue
		}
		// a promise that leaves pending at or after its deadline was timed out (explicit
		// completions are only accepted before the deadline): the time-out carries no value
		// and no completion key of whichever request happened to record it
		if *a.CompletedOn >= b.Timeout {
			wantState := 16
			if jsonMap(b.Tags)["resonate:timeout"] == "true" {
				wantState = 2
			}
			if a.State != wantState || *a.CompletedOn != b.Timeout || a.IkComplete != nil || (*a.ValueData != "" && *a.ValueData != "null") {
				w.Violate(prop+":timeout-carries-request-data", "promise %q (deadline %d) was timed out by commit %v as %s: a time-out has state %d, completion time = deadline, no value and no completion idempotency key", id, b.Timeout, e.Owners, a, wantState)
			}
		}
	}
	for id, a := range e.After.Promises {
		if _, ok := e.Before.Promises[id]; ok {
			continue
		}
		if a.State != 1 || a.ValueHeaders != nil || a.ValueData != nil || a.CompletedOn != nil || a.IkComplete != nil {
			w.Violate(prop+":created-not-pending", "promise %q was not created pending: %s", id, a)
		}
	}
}

func jsonMap(s string) map[string]string {
	m := map[string]string{}
	if s != "" {
		_ = json.Unmarshal([]byte(s), &m)
	}
	return m
}

func mapEq(a, b map[string]string) bool {
	if len(a) == 0 && len(b) == 0 {
		return true
	}
	return reflect.DeepEqual(a, b)
}

func keyEq(k interface{ String() string }, isNil bool, row *string) bool {
	if isNil || row == nil {
		return isNil && row == nil
	}
	return k.String() == *row
}

// ObservePromise compares one promise object that left the server with the row.
func ObservePromise(w *world.World, prop, where string, p *promise.Promise) {
	if p == nil {
		return
	}
	row, ok := w.Dump().Promises[p.Id]
	if !ok {
		w.Violate(prop+":observed-nonexistent:"+where, "%s shows promise %q which is not in the database", where, p.Id)
		return
	}
	bad := func(field string, got, want any) {
		w.Violate(prop+":observation-differs:"+where+":"+field, "%s shows promise %q with %s=%v but the row has %v (row %s)", where, p.Id, field, got, want, row)
	}
	if !mapEq(p.Param.Headers, jsonMap(row.ParamHeaders)) {
		bad("param.headers", p.Param.Headers, row.ParamHeaders)
	}
	if string(p.Param.Data) != row.ParamData {
		bad("param.data", string(p.Param.Data), row.ParamData)
	}
	if p.Timeout != row.Timeout {
		bad("timeout", p.Timeout, row.Timeout)
	}
	if !keyEq(p.IdempotencyKeyForCreate, p.IdempotencyKeyForCreate == nil, row.IkCreate) {
		bad("idempotencyKeyForCreate", p.IdempotencyKeyForCreate, ps2(row.IkCreate))
	}
	if !mapEq(p.Tags, jsonMap(row.Tags)) {
		bad("tags", p.Tags, row.Tags)
	}
	if !eqp(p.CreatedOn, row.CreatedOn) {
		bad("createdOn", pi2(p.CreatedOn), pi2(row.CreatedOn))
	}
	if p.State == promise.Pending {
		// a pending observation may be stale (the row may have completed since) but
		// must carry no completion data
		if len(p.Value.Headers) != 0 || len(p.Value.Data) != 0 || p.CompletedOn != nil || p.IdempotencyKeyForComplete != nil {
			bad("pending-with-completion-fields", p, row)
		}
		return
	}
	if int(p.State) != row.State {
		bad("state", int(p.State), row.State)
		return
	}
	vh := ""
	if row.ValueHeaders != nil {
		vh = *row.ValueHeaders
	}
	if !mapEq(p.Value.Headers, jsonMap(vh)) {
		bad("value.headers", p.Value.Headers, vh)
	}
	vd := ""
	if row.ValueData != nil {
		vd = *row.ValueData
	}
	if string(p.Value.Data) != vd {
		bad("value.data", string(p.Value.Data), vd)
	}
	if !keyEq(p.IdempotencyKeyForComplete, p.IdempotencyKeyForComplete == nil, row.IkComplete) {
		bad("idempotencyKeyForComplete", p.IdempotencyKeyForComplete, ps2(row.IkComplete))
	}
	if !eqp(p.CompletedOn, row.CompletedOn) {
		bad("completedOn", pi2(p.CompletedOn), pi2(row.CompletedOn))
	}
}

func ps2(p *string) string {
	if p == nil {
		return "<nil>"
	}
	return *p
}

func pi2(p *int64) string {
	if p == nil {
		return "<nil>"
	}
	return fmt.Sprint(*p)
}

// ResponsePromises lists every promise object carried by a response.
func ResponsePromises(r *world.Req) []*promise.Promise {
	if r.Res == nil {
		return nil
	}
	res := r.Res
	switch res.Kind {
	case t_api.ReadPromise:
		return []*promise.Promise{res.ReadPromise.Promise}
	case t_api.SearchPromises:
		return res.SearchPromises.Promises
	case t_api.CreatePromise:
		return []*promise.Promise{res.CreatePromise.Promise}
	case t_api.CreatePromiseAndTask:
		return []*promise.Promise{res.CreatePromiseAndTask.Promise}
	case t_api.CompletePromise:
		return []*promise.Promise{res.CompletePromise.Promise}
	case t_api.CreateCallback:
		return []*promise.Promise{res.CreateCallback.Promise}
	case t_api.CreateSubscription:
		return []*promise.Promise{res.CreateSubscription.Promise}
	case t_api.ClaimTask:
		return []*promise.Promise{res.ClaimTask.RootPromise, res.ClaimTask.LeafPromise}
	}
	return nil
}

func (C01Monitor) OnResponse(w *world.World, r *world.Req) {
	for _, p := range ResponsePromises(r) {
		ObservePromise(w, "C01", "response:"+r.Req.Kind.String(), p)
	}
}

func (C01Monitor) OnSend(w *world.World, e *world.SendEvent) {
	if e.Sub != nil && e.Sub.Promise != nil && e.Sub.Task != nil && e.Sub.Task.Mesg != nil && e.Sub.Task.Mesg.Type == "notify" {
		ObservePromise(w, "C01", "notification", e.Sub.Promise)
	}
}

// Scenarios ------------------------------------------------------------------

const recvPoll = `{"type":"poll","data":{"group":"g","id":"i"}}`

func c01Alphabet() []ReqF {
	return []ReqF{
		CreateP("p", "a", false, 10, nil, "x"),
		CreateP("p", "b", true, 10, nil, "y"),
		CompleteP("p", promise.Resolved, "a", false, "v1"),
		CompleteP("p", promise.Rejected, "b", true, "v2"),
		CompleteP("p", promise.Canceled, "", false, ""),
		CompleteP("p", promise.Rejected, "a", false, "v3"), // same key as the resolve above, different outcome
		ReadP("p"),
		SearchP("*", AllStates, nil, 10, nil),
		Callback("r", "p", 100, recvPoll),
		Subscribe("s1", "p", 100, recvPoll),
	}
}

type setupF struct {
	name string
	f    func(w *world.World)
}

func c01Setups() []setupF {
	mk := func(tags map[string]string) func(w *world.World) {
		return func(w *world.World) {
			w.Do(9, 0, CreateP("r", "", false, 1000, nil, "root").F())
			w.Do(9, 1, CreateP("p", "a", false, 10, tags, "x").F())
		}
	}
	return []setupF{
		{"absent", func(w *world.World) { w.Do(9, 0, CreateP("r", "", false, 1000, nil, "root").F()) }},
		{"pending", mk(nil)},
		{"pending-resolve-on-timeout", mk(map[string]string{"resonate:timeout": "true"})},
		{"pending+registrations", func(w *world.World) {
			mk(nil)(w)
			w.Do(9, 2, Callback("r", "p", 100, recvPoll).F())
			w.Do(9, 3, Subscribe("s0", "p", 100, recvPoll).F())
		}},
		{"resolved", func(w *world.World) {
			mk(nil)(w)
			w.Do(9, 2, CompleteP("p", promise.Resolved, "a", false, "v0").F())
		}},
	}
}

func promiseEpilogue(ids ...string) func(w *world.World) {
	return func(w *world.World) {
		for i, id := range ids {
			w.Do(8, i, ReadP(id).F())
		}
		w.Do(8, len(ids), SearchP("*", AllStates, nil, 10, nil).F())
	}
}

func C01Scenarios(tier string) []*Scenario {
	var out []*Scenario
	alpha := c01Alphabet()
	for _, su := range c01Setups() {
		for i := 0; i < len(alpha); i++ {
			for j := i; j < len(alpha); j++ {
				sc := &Scenario{
					Name:      fmt.Sprintf("C01/%s/%s|%s", su.name, alpha[i].Label, alpha[j].Label),
					Cfg:       world.DefaultConfig(),
					Clock0:    9,
					Setup:     su.f,
					Clients:   [][]ReqF{{alpha[i]}, {alpha[j]}},
					Sweeps:    map[string]int{"TimeoutPromises": 1},
					ClockMenu: []int64{10},
					Faults:    1,
					Lates:     lateIf(strings.HasPrefix(su.name, "pending")),
					Crashes:   0,
					Epilogue:  promiseEpilogue("p"),
					Monitors:  func() []world.Monitor { return []world.Monitor{C01Monitor{}} },
					Bound:     -1,
				}
				out = append(out, sc)
			}
		}
	}
	// crash scenarios: fewer, with a crash budget instead of faults
	for _, su := range c01Setups()[1:4] {
		for _, pair := range [][2]int{{2, 6}, {2, 3}, {6, 7}, {2, 8}, {2, 5}} {
			out = append(out, &Scenario{
				Name:      fmt.Sprintf("C01/crash/%s/%s|%s", su.name, alpha[pair[0]].Label, alpha[pair[1]].Label),
				Cfg:       world.DefaultConfig(),
				Clock0:    9,
				Setup:     su.f,
				Clients:   [][]ReqF{{alpha[pair[0]]}, {alpha[pair[1]]}},
				Sweeps:    map[string]int{"TimeoutPromises": 1},
				ClockMenu: []int64{10},
				Crashes:   1,
				Epilogue:  promiseEpilogue("p"),
				Monitors:  func() []world.Monitor { return []world.Monitor{C01Monitor{}} },
				Bound:     -1,
			})
		}
	}
	if tier == "thorough" {
		// three concurrent clients, two faults
		for _, su := range c01Setups()[1:4] {
			for i := 0; i < len(alpha); i++ {
				for j := i; j < len(alpha); j++ {
					for k := j; k < len(alpha); k++ {
						out = append(out, &Scenario{
							Name:      fmt.Sprintf("C01/3/%s/%s|%s|%s", su.name, alpha[i].Label, alpha[j].Label, alpha[k].Label),
							Cfg:       world.DefaultConfig(),
							Clock0:    9,
							Setup:     su.f,
							Clients:   [][]ReqF{{alpha[i]}, {alpha[j]}, {alpha[k]}},
							Sweeps:    map[string]int{"TimeoutPromises": 1},
							ClockMenu: []int64{10},
							Faults:    1,
							Crashes:   1,
							Epilogue:  promiseEpilogue("p"),
							Monitors:  func() []world.Monitor { return []world.Monitor{C01Monitor{}} },
							Bound:     -1,
						})
					}
				}
			}
		}
	}
	return out
}

func lateIf(b bool) int {
	if b {
		return 1
	}
	return 0
}
