package props

import (
	"bytes"
	"encoding/json"
	"fmt"
	"net/url"
	"sort"
	"strings"
	"time"

	"github.com/resonatehq/resonate/internal/app/subsystems/aio/router"
	"github.com/resonatehq/resonate/internal/app/subsystems/aio/sender"
	"github.com/resonatehq/resonate/internal/kernel/t_api"
	"github.com/resonatehq/resonate/internal/verif/runner"
	"github.com/resonatehq/resonate/internal/verif/world"
	"github.com/resonatehq/resonate/pkg/promise"
)

// ---------------------------------------------------------------------------
// C19 — receiver resolution: tasks go where the routing tag says
// ---------------------------------------------------------------------------

type c19Cfg struct {
	name    string
	sources []router.SourceConfig
	keys    []string // tag keys the sources look at, in order
	targets []sender.TargetConfig
}

func c19Configs() []c19Cfg {
	src := func(name, key string) router.SourceConfig {
		return router.SourceConfig{Name: name, Type: "tag", Data: json.RawMessage(fmt.Sprintf(`{"key":%q}`, key))}
	}
	var out []c19Cfg
	srcs := []struct {
		n string
		s []router.SourceConfig
		k []string
	}{
		{"default-source", nil, []string{"resonate:invoke"}},
		{"custom-key", []router.SourceConfig{src("default", "my:route")}, []string{"my:route"}},
		{"two-sources", []router.SourceConfig{src("first", "k1"), src("default", "k2")}, []string{"k1", "k2"}},
		{"extra-source", []router.SourceConfig{src("extra", "k1")}, []string{"k1", "resonate:invoke"}},
	}
	tgts := []struct {
		n string
		t []sender.TargetConfig
	}{
		{"default-target", nil},
		{"named-target", []sender.TargetConfig{{Name: "named", Type: "http", Data: json.RawMessage(`{"url":"http://target/x"}`)}}},
		{"name-shadows-url", []sender.TargetConfig{{Name: "http://h/p", Type: "poll", Data: json.RawMessage(`{"group":"shadow"}`)}, {Name: "default", Type: "http", Data: json.RawMessage(`{"url":"http://default"}`)}}},
	}
	for _, s := range srcs {
		for _, t := range tgts {
			out = append(out, c19Cfg{name: s.n + "/" + t.n, sources: s.s, keys: s.k, targets: t.t})
		}
	}
	return out
}

var c19TagValues = []string{
	"name", "default", "named", "http://h/p", "https://h:1/p?q=1#f", "poll://g", "poll://g/id", "poll://g/a/b", "poll://", "ftp://x/y", "://bad", "", " ", "a b",
	`{"type":"poll","data":{"group":"g","id":"i"}}`, `{"type":"http","data":{"url":"http://h"}}`, `{"type":"poll"}`, `{"type":"","data":{}}`, `{"data":{}}`,
	`{"type":"poll","data":{},"x":1}`, `{"type":"carrier-pigeon","data":{}}`, `{"type":"poll","data":[1,2]}`, `{"type":"poll","data":"str"}`, `{ "type" : "poll" , "data" : { "group" : "g" } }`,
	`null`, `1`, `true`, `[]`, `"quoted"`, `{}`,
}

type resolved struct {
	routes bool
	err    bool   // hand-off must fail (unknown receiver / plugin)
	plugin string // http | poll
	data   string // receiver data, JSON
}

// resolveRef is the reference resolver, transcribed from the property statement.
func resolveRef(recvJSON string, targets []sender.TargetConfig) resolved {
	tmap := map[string]sender.TargetConfig{"default": {Name: "default", Type: "poll", Data: json.RawMessage(`{"group":"default"}`)}}
	for _, t := range targets {
		tmap[t.Name] = t
	}
	known := func(typ string) bool { return typ == "http" || typ == "poll" }
	var logical string
	if json.Unmarshal([]byte(recvJSON), &logical) == nil {
		if t, ok := tmap[logical]; ok {
			return resolved{routes: true, err: !known(t.Type), plugin: t.Type, data: string(t.Data)}
		}
		u, err := url.Parse(logical)
		if err != nil {
			return resolved{routes: true, err: true}
		}
		switch u.Scheme {
		case "http", "https":
			d, _ := json.Marshal(map[string]string{"url": u.String()})
			return resolved{routes: true, plugin: "http", data: string(d)}
		case "poll":
			m := map[string]string{"group": u.Host}
			if id := strings.TrimPrefix(u.Path, "/"); id != "" {
				m["id"] = id
			}
			d, _ := json.Marshal(m)
			return resolved{routes: true, plugin: "poll", data: string(d)}
		}
		return resolved{routes: true, err: true}
	}
	var phys struct {
		Type string          `json:"type"`
		Data json.RawMessage `json:"data"`
	}
	if json.Unmarshal([]byte(recvJSON), &phys) != nil {
		return resolved{routes: true, err: true}
	}
	return resolved{routes: true, err: !known(phys.Type), plugin: phys.Type, data: string(phys.Data)}
}

func jsonEq(a, b string) bool {
	if a == "" || a == "null" {
		return b == "" || b == "null"
	}
	var x, y any
	if json.Unmarshal([]byte(a), &x) != nil || json.Unmarshal([]byte(b), &y) != nil {
		return a == b
	}
	ba, _ := json.Marshal(dropNulls(x))
	bb, _ := json.Marshal(dropNulls(y))
	return bytes.Equal(ba, bb)
}

// absent and null are the same thing in an address object
func dropNulls(v any) any {
	if m, ok := v.(map[string]any); ok {
		out := map[string]any{}
		for k, e := range m {
			if e != nil {
				out[k] = dropNulls(e)
			}
		}
		return out
	}
	return v
}

// expectedRecv: what the task's stored address must be for a routing tag value
func expectedRecv(v string) (string, bool) {
	if !RoutesRef(map[string]string{"k": v}, "k") {
		return "", false
	}
	if !json.Valid([]byte(v)) {
		b, _ := json.Marshal(v)
		return string(b), true
	}
	return v, true // the receiver object itself (compared JSON-semantically)
}

type c19Collector struct {
	world.BaseMonitor
	sends []*world.SendEvent
}

func (c *c19Collector) OnSend(w *world.World, e *world.SendEvent) { c.sends = append(c.sends, e) }

type C19Job struct{ Cfg c19Cfg }

func (j *C19Job) Name() string { return "C19/" + j.Cfg.name }

func (j *C19Job) Run(deadline time.Time) *runner.JobResult {
	res := &runner.JobResult{Name: j.Name(), Counters: map[string]int64{}}
	outcomes := map[string]bool{}
	viol := func(sig, format string, a ...any) {
		for _, v := range res.Violations {
			if v.Sig == sig {
				return
			}
		}
		res.Violations = append(res.Violations, runner.Violation{Sig: sig, Msg: fmt.Sprintf(format, a...), Job: j.Name(), Replay: map[string]any{"job": j.Name(), "sig": sig}})
	}
	class := func(v string) string {
		switch {
		case v == "":
			return "empty"
		case !json.Valid([]byte(v)):
			if u, err := url.Parse(v); err == nil && u.Scheme != "" {
				return "url:" + u.Scheme
			}
			return "plain"
		case strings.HasPrefix(strings.TrimSpace(v), "{"):
			return "json-object"
		}
		return "json-other"
	}
	for _, kind := range []string{"invoke", "resume", "notify"} {
		for ki, key := range j.Cfg.keys {
			for _, v := range c19TagValues {
				if kind != "invoke" && ki > 0 {
					continue
				}
				runner.Trace(fmt.Sprintf("JOB %s kind=%s key=%s value=%q", j.Name(), kind, key, v))
				res.Executions++
				cfg := taskCfg()
				cfg.RouterSources, cfg.SenderTargets = j.Cfg.sources, j.Cfg.targets
				col := &c19Collector{}
				c08 := &C08Monitor{RouteKey: key}
				w := world.New(cfg, col, c08)
				func() {
					defer func() {
						if r := recover(); r != nil {
							viol(fmt.Sprintf("C19:panic:%s:%s", kind, class(v)), "%s task with address %q: panic %v", kind, v, r)
						}
						func() { defer func() { _ = recover() }(); w.Close() }()
					}()
					var taskId, recvWant string
					routes := true
					sig := fmt.Sprintf("%s:%s", kind, class(v))
					switch kind {
					case "invoke":
						tags := map[string]string{key: v}
						// with several sources the first that matches wins: an earlier key is absent here
						r := w.Do(0, 0, CreateP("p", "", false, 100000, tags, "x").F())
						if r.Status() != 20100 {
							viol("C19:create-refused:"+sig, "create with tag %s=%q answered %d", key, v, r.Status())
							return
						}
						taskId = "__invoke:p"
						recvWant, routes = expectedRecv(v)
					default:
						// callbacks / subscriptions carry the address as raw JSON: a JSON string
						// (logical) or a receiver object; other tag values have no meaning here
						raw := v
						if !json.Valid([]byte(v)) {
							b, _ := json.Marshal(v)
							raw = string(b)
						} else if !strings.HasPrefix(strings.TrimSpace(v), "{") {
							return
						}
						w.Do(0, 0, CreateP("r", "", false, 100000, nil, "x").F())
						w.Do(0, 1, CreateP("p", "", false, 100000, nil, "x").F())
						var rq *t_api.Request
						if kind == "resume" {
							rq = Callback("r", "p", 100000, raw).F()
							taskId = "__resume:r:p"
						} else {
							rq = Subscribe("s1", "p", 100000, raw).F()
							taskId = "__notify:p:s1"
						}
						if r := w.Do(0, 2, rq); r.Status() != 20100 {
							viol("C19:registration-refused:"+sig, "%s registration with address %s answered %d", kind, raw, r.Status())
							return
						}
						w.Do(0, 3, CompleteP("p", promise.Resolved, "", false, "v").F())
						recvWant = raw
					}
					t := w.Dump().Tasks[taskId]
					if !routes {
						if t != nil {
							viol("C19:routed-although-it-must-not:"+sig, "tag value %q does not route by the statement, but task %s was created", v, t)
						}
						outcomes[sig+":no-route"] = true
						return
					}
					if t == nil {
						viol("C19:not-routed:"+sig, "tag %s=%q must route, but no task %q exists", key, v, taskId)
						return
					}
					if !jsonEq(t.Recv, recvWant) {
						viol("C19:stored-address-differs:"+sig, "task address stored as %s, the tag says %s", t.Recv, recvWant)
					}
					want := resolveRef(t.Recv, j.Cfg.targets)
					if !jsonEq(t.Recv, recvWant) {
						want = resolveRef(recvWant, j.Cfg.targets)
					}
					for cycle := 0; cycle < 2; cycle++ {
						n := len(col.sends)
						w.Sweep("EnqueueTasks")
						var ev *world.SendEvent
						for _, e := range col.sends[n:] {
							if e.Sub.Task.Id == taskId {
								ev = e
							}
						}
						row := w.Dump().Tasks[taskId]
						if cycle == 0 && ev == nil {
							viol("C19:not-dispatched:"+sig, "task %q (address %s) was not submitted for hand-off", taskId, t.Recv)
							return
						}
						if ev == nil {
							break
						}
						if want.err {
							if ev.Reached || ev.Err == nil {
								viol("C19:undeliverable-address-delivered:"+sig, "address %s is unknown / undeliverable but the message went to plugin %q with data %s", t.Recv, ev.Plugin, dataOf(ev))
							}
							if kind != "notify" && (row.State != 1 || row.Attempt != cycle+1) {
								viol("C19:failed-handoff-not-retried:"+sig, "after %d failed hand-off(s) the task is %s", cycle+1, row)
							}
							outcomes[sig+":undeliverable"] = true
							continue
						}
						if !ev.Reached {
							viol("C19:deliverable-address-failed:"+sig, "address %s should resolve to %s %s but the hand-off failed: %v", t.Recv, want.plugin, want.data, ev.Err)
							break
						}
						if ev.Plugin != want.plugin || !jsonEq(string(ev.Msg.Data), want.data) {
							viol("C19:misdirected:"+sig, "address %s must resolve to plugin %s data %s, the message went to plugin %s data %s", t.Recv, want.plugin, want.data, ev.Plugin, ev.Msg.Data)
						}
						outcomes[sig+":"+want.plugin] = true
						break
					}
					for _, x := range w.Viol {
						viol("C19:"+x.Sig, "%s (address %q)", x.Msg, v)
					}
				}()
			}
		}
	}
	for o := range outcomes {
		res.Outcomes = append(res.Outcomes, o)
	}
	sort.Strings(res.Outcomes)
	res.States, res.Transitions = res.Executions, res.Executions
	res.Samples = []any{map[string]any{"config": j.Cfg.name, "tag_values": len(c19TagValues)}}
	return res
}

func dataOf(e *world.SendEvent) string {
	if e.Msg == nil {
		return "<none>"
	}
	return string(e.Msg.Data)
}

func init() {
	Registry["C19"] = func() *runner.Spec {
		return &runner.Spec{
			Property: "C19", Engine: "kexplore", Level: "model_checking",
			Jobs: func(tier string) []runner.Job {
				var jobs []runner.Job
				for _, c := range c19Configs() {
					jobs = append(jobs, &C19Job{Cfg: c})
				}
				return jobs
			},
			Rule:   "30 routing tag / address values (plain names, the default and a configured target name, http / https / poll URLs with and without id and extra path, other schemes, malformed URLs, empty, JSON receiver objects of every shape incl. missing type, extra fields, unknown type, non-object data, JSON literals) x 4 router source tables (default, custom key, two sources, extra source) x 3 sender target tables (default only, named target, a name that shadows a URL) x 3 task kinds (invoke through the router, resume and notify through registrations); each through the real create coroutine, router, store, dispatch cycle and SenderWorker with capture plugins, two cycles; compared with a reference resolver transcribed from the statement; distinct = (kind, value class, resolution) triples",
			Assume: append([]string{"net/url is used by the reference resolver as well (trusted); transports are capture plugins"}, engineAAssume...),
			QuickS: 60, ThoroughS: 120,
		}
	}
}
