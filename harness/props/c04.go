package props

import (
	"fmt"

	"github.com/resonatehq/resonate/internal/kernel/t_api"
	"github.com/resonatehq/resonate/internal/verif/runner"
	"github.com/resonatehq/resonate/internal/verif/world"
	"github.com/resonatehq/resonate/pkg/promise"
)

// ---------------------------------------------------------------------------
// C04 — exact time-outs
// ---------------------------------------------------------------------------

type C04Monitor struct{ world.BaseMonitor }

func emptyValue(r *world.PromiseRow) bool {
	return r.ValueHeaders != nil && (*r.ValueHeaders == "{}" || *r.ValueHeaders == "" || *r.ValueHeaders == "null") && r.ValueData != nil && *r.ValueData == ""
}

func (C04Monitor) OnCommit(w *world.World, e *world.CommitEvent) {
	CheckPromiseTransitions(w, e, "C04")
	for id, a := range e.After.Promises {
		b := e.Before.Promises[id]
		if (b != nil && b.State != 1) || a.State == 1 {
			continue
		}
		// this commit completed promise id. Which transaction did it, and when did the
		// coroutine decide (the clock at which it made the submission)?
		decided := int64(-1)
		for i, sub := range e.Subs {
			for _, c := range sub.Store.Transaction.Commands {
				if c.UpdatePromise != nil && c.UpdatePromise.Id == id && int(c.UpdatePromise.State) == a.State {
					decided = e.SubClocks[i]
				}
			}
		}
		T := a.Timeout
		timeoutForm := a.State == timedoutState(a) && emptyValue(a) && a.IkComplete == nil && a.CompletedOn != nil && *a.CompletedOn == T
		if a.State == 16 {
			// (b)/(d): timed out only at or after the deadline, in exactly the prescribed form
			if e.Clock < T {
				w.Violate("C04:timedout-before-deadline", "promise %q stored as timed out at clock %d, before its timeout %d (commit by %v)", id, e.Clock, T, e.Owners)
			}
			if !timeoutForm {
				w.Violate("C04:timedout-form", "promise %q timed out with a value, key or completion time other than its timeout: %s", id, a)
			}
			continue
		}
		// completed with some other state
		if decided >= T {
			// (c) decided at or after the deadline: must be the time-out outcome, never the caller's
			if !timeoutForm {
				w.Violate("C04:completion-after-deadline-installed", "promise %q (timeout %d) was completed by a request that decided at clock %d >= timeout, installing %s", id, T, decided, a)
			}
		} else if timeoutForm && a.State == 2 && jsonMap(a.Tags)["resonate:timeout"] == "true" && e.Clock < T {
			w.Violate("C04:resolved-by-timeout-before-deadline", "promise %q resolved by time-out at clock %d before its timeout %d", id, e.Clock, T)
		}
	}
}

func (C04Monitor) OnResponse(w *world.World, r *world.Req) {
	if r.Res == nil {
		return
	}
	switch r.Res.Kind {
	case t_api.ReadPromise, t_api.CreatePromise, t_api.CreatePromiseAndTask, t_api.CompletePromise, t_api.SearchPromises:
	default:
		return
	}
	for _, p := range ResponsePromises(r) {
		if p == nil {
			continue
		}
		// (a) not pending once the clock has reached the timeout (judged at submission:
		// a request that straddles the deadline may answer either way)
		if p.State == promise.Pending && r.SubmitClock >= p.Timeout {
			w.Violate(fmt.Sprintf("C04:pending-after-deadline:%s:status=%d", r.Req.Kind, r.Status()), "%s submitted at clock %d reports promise %q PENDING although its timeout %d has been reached", r.Req.Kind, r.SubmitClock, p.Id, p.Timeout)
		}
		// (d) never timed out before the deadline
		if p.State == promise.Timedout && r.ResClock < p.Timeout {
			w.Violate("C04:timedout-before-deadline:response", "%s answered at clock %d reports promise %q timed out before its timeout %d", r.Req.Kind, r.ResClock, p.Id, p.Timeout)
		}
		if p.State == promise.Timedout && (p.CompletedOn == nil || *p.CompletedOn != p.Timeout || len(p.Value.Data) != 0 || len(p.Value.Headers) != 0) {
			w.Violate("C04:timedout-form:response", "%s reports timed-out promise %q with completedOn/value other than timeout/empty: %v", r.Req.Kind, p.Id, p)
		}
	}
}

func C04Scenarios(tier string) []*Scenario {
	var out []*Scenario
	mon := func() []world.Monitor { return []world.Monitor{C04Monitor{}} }
	for _, tag := range []bool{false, true} {
		var tags map[string]string
		if tag {
			tags = map[string]string{"resonate:timeout": "true"}
		}
		setup1 := func(w *world.World) {
			w.Do(9, 0, CreateP("p", "a", false, 10, tags, "x").F())
		}
		setup2 := func(w *world.World) {
			w.Do(9, 0, CreateP("p", "a", false, 10, tags, "x").F())
			w.Do(9, 1, CreateP("q", "a", false, 10, tags, "x").F())
		}
		reqs := []ReqF{
			ReadP("p"),
			CreateP("p", "a", false, 10, tags, "x"),
			CompleteP("p", promise.Resolved, "k", false, "v"),
			CompleteP("p", promise.Rejected, "k", true, "v"),
			SearchP("*", []promise.State{promise.Pending}, nil, 10, nil),
			SearchP("*", AllStates, nil, 1, nil),
			SearchP("*", []promise.State{promise.Rejected, promise.Timedout}, nil, 10, nil),
			// retries that carry another timeout than the stored promise (a client that
			// recomputes now+ttl on every retry): one already elapsed, one far in the future
			CreateP("p", "a", false, 5, tags, "x"),
			CreateP("p", "a", false, 100, tags, "x"),
		}
		for _, pbs := range []int{1, 2, 100} {
			cfg := world.DefaultConfig()
			cfg.System.PromiseBatchSize = pbs
			// pairs racing with the sweep, clock stepping 8 -> 9 -> 10 -> 11 around the deadline
			for i := 0; i < len(reqs); i++ {
				for j := i; j < len(reqs); j++ {
					setup, menu, c0 := setup1, []int64{10, 11}, int64(9)
					if pbs != 100 {
						// smaller batch sizes matter when the sweep finds more promises than it may take
						if tier != "thorough" && !((i == 0 || i == 2) && j == 5) {
							continue
						}
						setup = setup2
					}
					if tier == "thorough" {
						menu, c0 = []int64{9, 10, 11}, 8
					}
					out = append(out, &Scenario{
						Name: fmt.Sprintf("C04/tag=%v/pbs=%d/%s|%s", tag, pbs, reqs[i].Label, reqs[j].Label), Cfg: cfg, Clock0: c0, Setup: setup,
						Clients: [][]ReqF{{reqs[i]}, {reqs[j]}}, Sweeps: map[string]int{"TimeoutPromises": 1}, ClockMenu: menu,
						Epilogue: promiseEpilogue("p", "q"), Monitors: mon, Bound: -1,
					})
				}
			}
		}
		// created with a timeout already in the past / exactly now, then read back
		for _, to := range []int64{5, 9, 10} {
			to := to
			out = append(out, &Scenario{
				Name: fmt.Sprintf("C04/tag=%v/create-overdue(timeout=%d)", tag, to), Cfg: world.DefaultConfig(), Clock0: 9,
				Clients: [][]ReqF{{CreateP("n", "a", false, to, tags, "x"), ReadP("n")}, {SearchP("*", AllStates, nil, 10, nil)}},
				Sweeps:  map[string]int{"TimeoutPromises": 1}, ClockMenu: []int64{10},
				Epilogue: promiseEpilogue("n"), Monitors: mon, Bound: -1,
			})
			out = append(out, &Scenario{
				Name: fmt.Sprintf("C04/tag=%v/create-task-overdue(timeout=%d)", tag, to), Cfg: world.DefaultConfig(), Clock0: 9,
				Clients: [][]ReqF{{func() ReqF {
					t2 := map[string]string{"resonate:invoke": "poll://g/w"}
					for k, v := range tags {
						t2[k] = v
					}
					return CreatePT("n", "a", false, to, t2, "w1", 5)
				}(), ReadP("n")}},
				Sweeps: map[string]int{"TimeoutPromises": 1}, ClockMenu: []int64{10},
				Epilogue: promiseEpilogue("n"), Monitors: mon, Bound: -1,
			})
		}
		if tier == "thorough" {
			cfg := world.DefaultConfig()
			for i := 0; i < len(reqs); i++ {
				for j := i; j < len(reqs); j++ {
					for k := j; k < len(reqs); k++ {
						out = append(out, &Scenario{
							Name: fmt.Sprintf("C04/3/tag=%v/%s|%s|%s", tag, reqs[i].Label, reqs[j].Label, reqs[k].Label), Cfg: cfg, Clock0: 9, Setup: setup2,
							Clients: [][]ReqF{{reqs[i]}, {reqs[j]}, {reqs[k]}}, Sweeps: map[string]int{"TimeoutPromises": 1}, ClockMenu: []int64{10, 11},
							Faults: 1, Epilogue: promiseEpilogue("p", "q"), Monitors: mon, Bound: -1,
						})
					}
				}
			}
		}
	}
	return out
}

func init() {
	Registry["C04"] = func() *runner.Spec {
		return &runner.Spec{
			Property: "C04", Engine: "kexplore", Level: "model_checking",
			Jobs:   scenarioJobs("C04", C04Scenarios),
			Rule:   "every interleaving of read/create/complete/search requests (2 concurrent, 3 thorough) with the time-out sweep (promise batch size 1, 2, 100) and with clock steps T-2, T-1, T, T+1 placed anywhere between their transactions; promises created with a timeout in the past / exactly now; distinct = distinct (responses, final database) vectors",
			Assume: engineAAssume, QuickS: 120, ThoroughS: 1500,
		}
	}
}
