package props

import (
	"strconv"
	"fmt"
	"os"
	"sync"
	"sort"
	"strings"

	"github.com/resonatehq/resonate/internal/kernel/t_aio"
	"github.com/resonatehq/resonate/internal/verif/vx"
	"github.com/resonatehq/resonate/internal/verif/world"
)

// Scenario closes the kernel world with a small driver: a sequential setup that
// produces a non-initial state, a few concurrent client scripts on colliding
// ids, the background sweeps that may run, a clock menu and fault budgets.
type Scenario struct {
	Name     string
	Cfg      world.Config
	Clock0   int64
	Setup    func(w *world.World)
	Clients  [][]ReqF
	Sweeps   map[string]int // how many instances of each background coroutine may be started
	ClockMenu []int64       // later clock values the explorer may step to, ascending
	Faults   int            // injected store/router failures (before or after commit)
	SendAlt  int            // non-default transport answers (refused / error)
	Crashes  int
	CommitFaults int // COMMITs that fail although every statement succeeded
	Batches  bool // also try pairs of pending store submissions in one SQL transaction
	Epilogue func(w *world.World)
	Monitors func() []world.Monitor
	KeyResponses bool
	Bound    int // preemption bound, <0 = unbounded
	NoPrune  bool
	// AtomicRequests restricts the schedules to those in which a request, once
	// submitted, runs to completion before anything else happens (C02 reference).
	AtomicRequests bool
	// AtomicSweeps: a background sweep, once it has issued a submission, runs to completion
	// before anything else happens (C02 reference: a one-at-a-time server also runs its
	// background work one at a time, so the reference set never contains an outcome that
	// needs a request to land between a sweep's read and its write).
	AtomicSweeps bool
	Known          map[string]bool // signatures of listed known findings
	Lates          int             // store completions that may reach their coroutine only with the next tick (after a clock step, another completion, a sweep)
	ClockWhenIdle  bool            // the clock only advances while no client request is in flight
	StrictDeviations bool          // bounded mode: every non-default choice costs one deviation
	// Menu is a virtual client that, whenever idle, may issue ANY request of the
	// menu, up to MenuDepth requests: enumerates operation sequences.
	Menu      []ReqF
	MenuDepth int
	Par       int   // explore this scenario with that many concurrent explorer workers
	MenuFirst *ReqF // if set, the first request of the menu client is this one (splits a job)

	snapMu    sync.Mutex
	snap      *world.Image // database image after Setup (Setup is deterministic and sequential)
	snaps     map[int]*world.Image // per explorer worker: its own source connection
	snapClock int64
}

var debugDump = os.Getenv("VERIF_DEBUG_DUMP") != ""

type runState struct {
	commitFaults int
	lates        int
	next    []int
	infl    []*world.Req
	faults  int
	sendAlt int
	crashes int
	sweeps  map[string]int
	clockIx int
}

func (s *runState) key() string {
	ks := make([]string, 0, len(s.sweeps))
	for k, v := range s.sweeps {
		ks = append(ks, fmt.Sprintf("%s=%d", k, v))
	}
	sort.Strings(ks)
	return fmt.Sprintf("next=%v f=%d sa=%d c=%d sw=%v ck=%d cf=%d", s.next, s.faults, s.sendAlt, s.crashes, ks, s.clockIx, s.commitFaults*10+s.lates)
}

type option struct {
	label string
	cost  int
	apply func()
}

// Result of one execution.
type ExecResult struct {
	Viol     []world.Violation
	Outcome  string // observation vector (responses + final database)
	Labels   []string
	Choices  []int
	Cut      bool
	Log      []string
	Reqs     []*world.Req
	Final    string
}

func ownerLive(w *world.World, name string) bool {
	for _, p := range w.Pending() {
		if strings.HasPrefix(p.Owner, name+":") {
			return true
		}
	}
	return false
}

// RunOnce performs one execution of the scenario under the chooser.
func (sc *Scenario) RunOnce(ch *vx.Chooser, keepLog bool) (res *ExecResult) {
	res = &ExecResult{}
	var mons []world.Monitor
	if sc.Monitors != nil {
		mons = sc.Monitors()
	}
	cfg := sc.Cfg
	sc.snapMu.Lock()
	haveSnap := sc.snap != nil
	if sc.Setup != nil && haveSnap {
		if sc.snaps == nil {
			sc.snaps = map[int]*world.Image{}
		}
		if sc.snaps[ch.Worker] == nil {
			sc.snaps[ch.Worker] = &world.Image{Bytes: sc.snap.Bytes}
		}
		cfg.Image = sc.snaps[ch.Worker]
	}
	sc.snapMu.Unlock()
	w := world.New(cfg, mons...)
	w.KeepLog = keepLog
	w.Clock = sc.Clock0
	defer func() {
		if r := recover(); r != nil {
			if d, ok := r.(vx.Divergence); ok {
				panic(d)
			}

			w.Violate("panic:"+firstLine(fmt.Sprint(r)), "panic on the kernel thread: %v", r)
		}
		res.Viol = w.Viol
		res.Labels = ch.Labels()
		res.Choices = ch.Choices()
		res.Log = w.Log
		res.Reqs = w.Reqs
		res.Cut = ch.Cut
		func() {
			defer func() { _ = recover() }()
			w.Close()
		}()
	}()
	if sc.Setup != nil {
		if haveSnap {
			w.Clock = sc.snapClock
		} else {
			sc.Setup(w)
			if len(w.Viol) == 0 && len(w.Pending()) == 0 {
				sc.snapMu.Lock()
				sc.snap, sc.snapClock = &world.Image{Bytes: w.Snapshot()}, w.Clock
				sc.snapMu.Unlock()
			}
		}
	}
	w.Step, w.Log = 0, nil
	if debugDump {
		fmt.Printf("--- state after setup (snapshot=%v, clock=%d)\n%s", cfg.Image != nil, w.Clock, w.Dump().Text())
	}
	for _, m := range mons {
		m.OnStart(w)
	}
	nsetup := len(w.Reqs)
	st := &runState{next: make([]int, len(sc.Clients)+1), infl: make([]*world.Req, len(sc.Clients)+1), faults: sc.Faults, sendAlt: sc.SendAlt, crashes: sc.Crashes, sweeps: map[string]int{}, commitFaults: sc.CommitFaults, lates: sc.Lates}
	if v := os.Getenv("VERIF_LATES"); v != "" && !sc.AtomicRequests {
		// experiment switch: stale reads in every scenario
		if n, err := strconv.Atoi(v); err == nil && n > st.lates {
			st.lates = n
		}
	}
	for k, v := range sc.Sweeps {
		st.sweeps[k] = v
	}
	for {
		if sc.unknownViolation(w) {
			return
		}
		if w.Step > 3000 {
			w.Violate("livelock", "the execution did not come to rest within 3000 steps: a request or sweep keeps issuing submissions (retry loop that never ends)")
			return
		}
		opts := sc.options(w, st)
		if len(opts) == 0 {
			if w.Undelivered() > 0 {
				w.Flush() // nothing else can happen: the next tick delivers the late completion
				continue
			}
			break
		}
		if !sc.NoPrune && ch.Seen(func() string { return w.Key(sc.KeyResponses, sc.Bound >= 0) + st.key() }) {
			return
		}
		labels := make([]string, len(opts))
		costs := make([]int, len(opts))
		for i, o := range opts {
			labels[i], costs[i] = o.label, o.cost
			if sc.StrictDeviations && i > 0 && costs[i] == 0 {
				costs[i] = 1 // every departure from the canonical schedule counts
			}
		}
		opts[ch.Choose(labels, costs)].apply()
	}
	if sc.unknownViolation(w) {
		return
	}
	w.Flush()
	w.Quiesce()
	if sc.Epilogue != nil {
		sc.Epilogue(w)
	}
	w.End()
	if debugDump {
		d := w.Dump()
		fmt.Printf("--- schedules at end: ")
		for _, s := range d.Schedules {
			fmt.Printf("%s next=%d; ", s.Id, s.NextRunTime)
		}
		fmt.Printf(" promises=%d\n", len(d.Promises))
	}
	var b strings.Builder
	for _, r := range w.Reqs[nsetup:] {
		fmt.Fprintf(&b, "%s=%s;", r.Id, world.RenderResponse(r))
	}
	res.Final = w.Dump().Text()
	b.WriteString(res.Final)
	res.Outcome = b.String()
	return
}

// unknownViolation reports whether the execution hit a violation that is not a
// listed known finding (executions continue past known findings so that they do
// not mask anything that happens later).
func (sc *Scenario) unknownViolation(w *world.World) bool {
	for _, v := range w.Viol {
		if !sc.Known[v.Sig] {
			return true
		}
	}
	return false
}

func firstLine(s string) string {
	if i := strings.IndexByte(s, '\n'); i >= 0 {
		return s[:i]
	}
	return s
}

func (sc *Scenario) options(w *world.World, st *runState) []option {
	var opts []option
	pend := w.Pending()

	if sc.AtomicRequests {
		// a request in flight runs alone: only its own oldest submission may execute
		for c := range st.infl {
			if r := st.infl[c]; r != nil && !r.Done && !r.Lost {
				for i, p := range pend {
					if p.Owner == r.Id {
						i := i
						opts = append(opts, option{"exec " + p.Label(), 0, func() { w.Exec(i, world.OK) }})
						if st.faults > 0 {
							opts = append(opts, sc.faultOpts(w, st, i, p)...)
						}
						return opts
					}
				}
			}
		}
	}

	if sc.AtomicSweeps {
		for i, p := range pend {
			for _, name := range world.BackgroundNames {
				if strings.HasPrefix(p.Owner, name+":") {
					i := i
					return append(opts, option{"exec " + p.Label(), 0, func() { w.Exec(i, world.OK) }})
				}
			}
		}
	}

	for i, p := range pend {
		i := i
		cost := 0
		if i > 0 {
			cost = 1
		}
		opts = append(opts, option{"exec " + p.Label(), cost, func() { w.Exec(i, world.OK) }})
	}
	for c := range sc.Clients {
		c := c
		if r := st.infl[c]; r != nil && !r.Done && !r.Lost {
			continue
		}
		if st.next[c] >= len(sc.Clients[c]) {
			continue
		}
		rf := sc.Clients[c][st.next[c]]
		opts = append(opts, option{fmt.Sprintf("arrive c%d %s", c, rf.Label), 0, func() {
			idx := st.next[c]
			st.next[c]++
			st.infl[c] = w.Submit(c, idx, rf.F())
		}})
	}
	if mc := len(sc.Clients); len(sc.Menu) > 0 && st.next[mc] < sc.MenuDepth && (st.infl[mc] == nil || st.infl[mc].Done || st.infl[mc].Lost) {
		menu := sc.Menu
		if st.next[mc] == 0 && sc.MenuFirst != nil {
			menu = []ReqF{*sc.MenuFirst}
		}
		for _, rf := range menu {
			rf := rf
			opts = append(opts, option{fmt.Sprintf("arrive c%d %s", mc, rf.Label), 0, func() {
				idx := st.next[mc]
				st.next[mc]++
				st.infl[mc] = w.Submit(mc, idx, rf.F())
			}})
		}
	}
	for _, name := range world.BackgroundNames {
		name := name
		if st.sweeps[name] > 0 && !ownerLive(w, name) {
			opts = append(opts, option{"sweep " + name, 0, func() { st.sweeps[name]--; w.OpenGate(name) }})
		}
	}
	inflight := false
	for _, r := range st.infl {
		if r != nil && !r.Done && !r.Lost {
			inflight = true
		}
	}
	if st.clockIx < len(sc.ClockMenu) && !(sc.ClockWhenIdle && inflight) {
		t := sc.ClockMenu[st.clockIx]
		opts = append(opts, option{fmt.Sprintf("clock %d", t), 0, func() { st.clockIx++; w.SetClock(t) }})
	}
	if st.faults > 0 {
		for i, p := range pend {
			opts = append(opts, sc.faultOpts(w, st, i, p)...)
		}
	}
	if st.lates > 0 {
		for i, p := range pend {
			i := i
			// a read whose answer reaches its coroutine late is a stale read; for a write the
			// coroutine only answers later, which the arrival order of the requests covers
			if p.Kind() == t_aio.Store && readOnly(p) {
				opts = append(opts, option{"late " + p.Label(), 1, func() { st.lates--; w.Exec(i, world.Late) }})
			}
		}
	}
	if st.commitFaults > 0 {
		for i, p := range pend {
			i := i
			if p.Kind() == t_aio.Store {
				opts = append(opts, option{"commitfail " + p.Label(), 1, func() { st.commitFaults--; w.Exec(i, world.CommitFail) }})
				if !readOnly(p) && len(p.SQE.Submission.Store.Transaction.Commands) > 1 {
					// the same budget: a statement in the middle of a multi-command transaction fails
					opts = append(opts, option{"stmtfail " + p.Label(), 1, func() { st.commitFaults--; w.Exec(i, world.StmtFail) }})
				}
			}
		}
	}
	if st.sendAlt > 0 {
		for i, p := range pend {
			i := i
			if p.Kind() == t_aio.Sender {
				opts = append(opts, option{"refuse " + p.Label(), 1, func() { st.sendAlt--; w.Exec(i, world.SendRefuse) }})
				opts = append(opts, option{"senderr " + p.Label(), 1, func() { st.sendAlt--; w.Exec(i, world.SendError) }})
			}
		}
	}
	if sc.Batches {
		for i, p := range pend {
			for j, q := range pend {
				if i == j || p.Kind() != t_aio.Store || q.Kind() != t_aio.Store {
					continue
				}
				i, j := i, j
				opts = append(opts, option{"batch " + p.Label() + " + " + q.Label(), 1, func() { w.ExecBatch([]int{i, j}, world.OK) }})
			}
		}
	}
	if st.crashes > 0 && len(opts) > 0 {
		opts = append(opts, option{"crash", 1, func() {
			st.crashes--
			w.Crash()
		}})
	}
	return opts
}

func (sc *Scenario) faultOpts(w *world.World, st *runState, i int, p *world.Pending) []option {
	var opts []option
	switch p.Kind() {
	case t_aio.Store:
		opts = append(opts, option{"failbefore " + p.Label(), 1, func() { st.faults--; w.Exec(i, world.FailBefore) }})
		opts = append(opts, option{"failafter " + p.Label(), 1, func() { st.faults--; w.Exec(i, world.FailAfter) }})
	case t_aio.Router, t_aio.Sender:
		opts = append(opts, option{"failbefore " + p.Label(), 1, func() { st.faults--; w.Exec(i, world.FailBefore) }})
	}
	return opts
}

func readOnly(p *world.Pending) bool {
	tx := p.SQE.Submission.Store.Transaction
	for _, c := range tx.Commands {
		k := c.Kind.String()
		if !strings.HasPrefix(k, "Read") && !strings.HasPrefix(k, "Search") {
			return false
		}
	}
	return len(tx.Commands) > 0
}
