# shared by check / setup.sh: offline Go environment and overlay build
export GOFLAGS=-mod=mod GOPROXY=off GOSUMDB=off GOTOOLCHAIN=local CGO_ENABLED=1
export GOCACHE=${GOCACHE:-/root/.cache/go-build}
VERIF=${VERIF_HOME:-$(cd "$(dirname "${BASH_SOURCE[0]}")" && pwd)}
export VERIF_HOME=$VERIF
REPO=${VERIF_REPO:-/repo}

# mkoverlay <out.json> [extra "virtual=real" pairs...]
mkoverlay() {
  local out=$1; shift
  python3 - "$out" "$REPO" "$VERIF" "$@" <<'PY'
import json, os, sys
out, repo, verif = sys.argv[1], sys.argv[2], sys.argv[3]
rep = {}
h = verif + "/harness"
for pkg in sorted(os.listdir(h)):
    d = os.path.join(h, pkg)
    if pkg == "hooks" or not os.path.isdir(d):
        continue
    for root, _, files in os.walk(d):
        for f in files:
            if f.endswith(".go"):
                real = os.path.join(root, f)
                rel = os.path.relpath(real, h)
                rep[os.path.join(repo, "internal/verif", rel)] = real
hooks = {
    "sender_verif.go": "internal/app/subsystems/aio/sender/zz_verif_hook.go",
    "sqlite_verif.go": "internal/app/subsystems/aio/store/sqlite/zz_verif_hook.go",
    "postgres_verif.go": "internal/app/subsystems/aio/store/postgres/zz_verif_hook.go",
    "poll_verif.go": "internal/app/plugins/poll/zz_verif_hook.go",
}
for f, dst in hooks.items():
    p = os.path.join(h, "hooks", f)
    if os.path.exists(p):
        rep[os.path.join(repo, dst)] = p
for pair in sys.argv[4:]:
    v, r = pair.split("=", 1)
    rep[v] = r
json.dump({"Replace": rep}, open(out, "w"), indent=1)
PY
}

# vbuild <engine> : builds /verif/bin/<engine> from the current /repo working tree
vbuild() {
  local eng=$1; shift
  mkdir -p $VERIF/bin $VERIF/.ov
  local ov=$VERIF/.ov/$eng.$$.json
  mkoverlay $ov "$@"
  (cd $REPO && go build $VBUILD_FLAGS -tags verif -overlay $ov -o $VERIF/bin/${VBUILD_OUT:-$eng} ./internal/verif/cmd/$eng)
  local rc=$?
  rm -f $ov
  return $rc
}
